---------------------------- MODULE Presence_MC ----------------------------
(***************************************************************************)
(* Model-checking and behaviour-generation harness for Presence.           *)
(*  U1 (exhaustive, Init/Next): topics are actors with one FIFO mailbox    *)
(*    per destination (hub.routeSrv -> Topic.serverMsg); every attach,     *)
(*    detach, timer, hub and permission step interleaves freely with the   *)
(*    deliveries.  Invariants: OnlineCountOK, NoLeakOK, QuiescentConverged.*)
(*  Generation (-simulate, GenInit/GenNext): requests run one at a time to *)
(*    quiescence (PresenceSeq), the drawn World steps are written one file *)
(*    per behaviour for replay against the real server.                    *)
(***************************************************************************)
EXTENDS PresenceSeq, TLC, Json

CONSTANTS Kinds,        \* action kinds explored by U1
          MaxMbox,      \* bound on every mailbox
          MaxUnloads,   \* bound on idle-timer expiries
          MaxPerm,      \* bound on permission changes (mute/unmute/invite/evict)
          MaxBg,        \* bound on background connections
          Owner,        \* [Groups -> Users]
          Strangers,    \* users that hold no subscription at the start of generated behaviours (roles: stranger, invited, banned, removed)
          DEV_StaleAcrossReload, \* a message may sit in hub.routeSrv while its destination is unloaded AND registered again (the hub
                                 \* serves join and routeSrv in no particular order); FALSE = the hub drops what is addressed to an
                                 \* unregistered topic before it registers that topic again
          MaxDepth, DumpPrefix

VARIABLES S, mbox, cnt, leak, lost, hist,
          W        \* generation only: world-level bookkeeping next to S (connected sessions, p2p attachments, step count)
vars == <<S, mbox, cnt, leak, lost, hist, W>>
View == <<S, mbox, cnt, leak, lost>>

\* ------------------------------------------------------------------ U1: asynchronous exploration
U1State ==
  [InitState EXCEPT !.sub = [t \in SubTopics |-> [u \in Users |->
        IF t \in P2Ps THEN (IF u \in Ends[t] THEN [live |-> TRUE, P |-> TRUE] ELSE NoSubP)
        ELSE IF u = Owner[t] THEN [live |-> TRUE, P |-> TRUE] ELSE NoSubP]]]

Init == /\ S = U1State
        /\ mbox = [d \in Actors |-> <<>>]
        /\ cnt = [unl |-> 0, perm |-> 0, bg |-> 0]
        /\ leak = FALSE /\ lost = FALSE
        /\ hist = <<>>
        /\ W = <<>>

RECURSIVE Enq(_, _)
Enq(mb, out) == IF out = <<>> THEN mb ELSE Enq([mb EXCEPT ![Head(out).dst] = Append(@, Head(out).m)], Tail(out))
Fits(mb) == \A d \in Actors : Len(mb[d]) <= MaxMbox

\* take the result r of a request operator: new state, messages appended to the mailboxes of their destinations
Take(r, label) ==
  /\ Fits(Enq(mbox, r.out))
  /\ S' = r.st
  /\ mbox' = Enq(mbox, r.out)
  /\ hist' = label
  /\ UNCHANGED <<leak, lost, W>>

K(k) == k \in Kinds
Idle(x) == S.top[x].ph = "live" /\ S.top[x].att = {} /\ S.top[x].pend = {}

Drained(x) == DEV_StaleAcrossReload \/ S.top[x].ph # "off" \/ mbox[x] = <<>>
AttachMe(s) == /\ K("me") /\ s \notin S.top[SessUser[s]].att /\ S.top[SessUser[s]].ph \in {"off", "live"} /\ Drained(SessUser[s])
               /\ Take(Attach(S, s, SessUser[s]), <<"AttachMe", s>>) /\ UNCHANGED cnt
AttachGrp(s, g) == /\ K("grp") /\ s \notin S.top[g].att /\ S.top[g].ph \in {"off", "live"} /\ S.sub[g][SessUser[s]].live /\ Drained(g)
                   /\ Take(Attach(S, s, g), <<"AttachGrp", s, g>>) /\ UNCHANGED cnt
DetachAny(s, x) == /\ s \in S.top[x].att /\ S.top[x].ph = "live"
                   /\ Take(Res(Detach(S, s, x, S.bg[s]), <<>>), <<"Detach", s, x>>) /\ UNCHANGED cnt
Disconnect(s) == /\ K("disc") /\ (S.bg[s] \/ \E x \in Actors : s \in S.top[x].att)
                 /\ \A x \in Actors : s \in S.top[x].att => S.top[x].ph = "live"
                 /\ Take(Then(DetachAll(Res(S, <<>>), ActorOrder, s, DisconnectFlag(S, s)), LAMBDA X : Res([X EXCEPT !.bg[s] = FALSE], <<>>)),
                         <<"Disconnect", s>>)
                 /\ UNCHANGED cnt
ConnectBg(s) == /\ K("bg") /\ ~S.bg[s] /\ cnt.bg < MaxBg /\ \A x \in Actors : s \notin S.top[x].att
                /\ Take(Res([S EXCEPT !.bg[s] = TRUE], <<>>), <<"ConnectBg", s>>) /\ cnt' = [cnt EXCEPT !.bg = @ + 1]
BgToFg(s) == /\ K("bg") /\ S.bg[s] /\ Take(Res(BgExpire(S, s), <<>>), <<"BgToFg", s>>) /\ UNCHANGED cnt
SessToFg(x, s) == /\ s \in S.top[x].pend /\ Serving(S, x) /\ Take(ToFg(S, x, s), <<"SessToFg", x, s>>) /\ UNCHANGED cnt

\* idle timer: two steps as built (hub.unreg first, "off" fan-out second, the hub reacting whenever it likes), one step as intended
UnloadOne(x) == /\ ~DEV_TwoStepUnload /\ Idle(x) /\ cnt.unl < MaxUnloads
                /\ Take(UnloadAtomic(S, x), <<"Unload", x>>) /\ cnt' = [cnt EXCEPT !.unl = @ + 1]
TimeoutSendsUnreg(x) == /\ DEV_TwoStepUnload /\ Idle(x) /\ cnt.unl < MaxUnloads
                        /\ Take(Res([S EXCEPT !.top[x].ph = "unreg"], <<>>), <<"TimeoutSendsUnreg", x>>) /\ cnt' = [cnt EXCEPT !.unl = @ + 1]
TimeoutSendsOff(x) ==
  /\ DEV_TwoStepUnload /\ UNCHANGED cnt
  /\ \/ /\ S.top[x].ph = "unreg"
        /\ Take(Res([S EXCEPT !.top[x].ph = "lame"], OffFanout(S, x)), <<"TimeoutSendsOff", x>>)
     \/ /\ S.zomb[x].has
        /\ Take(Res([S EXCEPT !.zomb[x] = NoZomb], S.zomb[x].to), <<"TimeoutSendsOff(old actor)", x>>)
HubUnreg(x) ==
  /\ DEV_TwoStepUnload /\ S.top[x].ph \in {"unreg", "lame"} /\ ~S.zomb[x].has /\ UNCHANGED cnt
  /\ Take(Res([Forget(S, x) EXCEPT !.zomb[x] = IF S.top[x].ph = "unreg" THEN [has |-> TRUE, to |-> OffFanout(S, x)] ELSE NoZomb], <<>>),
          <<"HubUnreg", x>>)

\* forwarding is legitimate if the recipient holds P on the contact, or the notice that it no longer does has not
\* reached its 'me' actor yet (still queued behind, or is the very message being handled)
Legit(S2, mb2, m, f) ==
  \/ CP(S2, f.o, f.src)
  \/ m.cmd \in {"dis", "rem"} \/ m.what = "gone"
  \/ \E i \in DOMAIN mb2[f.o] : mb2[f.o][i].src = f.src /\ (mb2[f.o][i].cmd \in {"dis", "rem"} \/ mb2[f.o][i].what = "gone")
Deliver(d) ==
  /\ mbox[d] # <<>> /\ Serving(S, d)
  /\ LET m == Head(mbox[d])
         r == Handle(S, d, m)
         mb1 == [mbox EXCEPT ![d] = Tail(@)]
         mb2 == Enq(mb1, r.out) IN
     /\ Fits(mb2)
     /\ S' = r.st /\ mbox' = mb2 /\ hist' = <<"Deliver", d, m>>
     /\ leak' = (leak \/ \E i \in DOMAIN r.fw : ~Legit(r.st, mb2, m, r.fw[i]))
     \* a removal notice handled by a 'me' topic with attached sessions must reach them, P or not, contact known or not
     /\ lost' = (lost \/ (d \in Users /\ m.what = "gone" /\ S.top[d].att # {} /\ r.fw = <<>>))
  /\ UNCHANGED <<cnt, W>>
DropToUnloaded(d) == /\ mbox[d] # <<>> /\ S.top[d].ph = "off"
                     /\ mbox' = [mbox EXCEPT ![d] = Tail(@)] /\ hist' = <<"DropToUnloaded", d, Head(mbox[d])>> /\ UNCHANGED <<S, cnt, leak, lost, W>>

PermOK == cnt.perm < MaxPerm
DoMute(t, u) == /\ K("mute") /\ PermOK /\ S.sub[t][u].live /\ S.sub[t][u].P
                /\ Take(Mute(S, t, u), <<"Mute", t, u>>) /\ cnt' = [cnt EXCEPT !.perm = @ + 1]
DoUnmute(t, u) == /\ K("mute") /\ PermOK /\ S.sub[t][u].live /\ ~S.sub[t][u].P
                  /\ Take(Unmute(S, t, u), <<"Unmute", t, u>>) /\ cnt' = [cnt EXCEPT !.perm = @ + 1]
Invite(g, u) == /\ K("member") /\ PermOK /\ ~S.sub[g][u].live
                /\ Take(JoinGrp(S, g, u, TRUE), <<"Invite", g, u>>) /\ cnt' = [cnt EXCEPT !.perm = @ + 1]
InviteMuted(g, u) == /\ K("member") /\ PermOK /\ ~S.sub[g][u].live
                     /\ Take(JoinGrp(S, g, u, FALSE), <<"InviteMuted", g, u>>) /\ cnt' = [cnt EXCEPT !.perm = @ + 1]
EvictUser(g, u) == /\ K("member") /\ PermOK /\ S.sub[g][u].live /\ u # Owner[g] /\ S.top[g].ph \in {"off", "live"}
                   /\ Take(GoneGrp(S, g, u), <<"EvictUser", g, u>>) /\ cnt' = [cnt EXCEPT !.perm = @ + 1]

Next ==
  \/ \E s \in Sessions : AttachMe(s) \/ Disconnect(s) \/ ConnectBg(s) \/ BgToFg(s)
  \/ \E s \in Sessions, g \in Groups : AttachGrp(s, g)
  \/ \E s \in Sessions, x \in Actors : DetachAny(s, x) \/ SessToFg(x, s)
  \/ \E x \in Actors : UnloadOne(x) \/ TimeoutSendsUnreg(x) \/ TimeoutSendsOff(x) \/ HubUnreg(x) \/ Deliver(x) \/ DropToUnloaded(x)
  \/ \E t \in SubTopics, u \in Users : DoMute(t, u) \/ DoUnmute(t, u)
  \/ \E g \in Groups, u \in Users : Invite(g, u) \/ InviteMuted(g, u) \/ EvictUser(g, u)

Quiescent == (\A d \in Actors : mbox[d] = <<>>) /\ Settled(S)
OnlineCountOK == OnlineCountExact(S)
NoLeakOK == ~leak
GoneDeliveredOK == ~lost
QuiescentConverged == Quiescent => Converged(S)

\* ------------------------------------------------------------------ generation of World behaviours (sequential)
GenInit == /\ S = InitState
           /\ W = [conn |-> [s \in Sessions |-> TRUE], patt |-> [p \in P2Ps |-> {}], n |-> 0]
           /\ hist = <<>>
           /\ mbox = <<>> /\ cnt = <<>> /\ leak = FALSE /\ lost = FALSE

PModes == [p |-> "JRWPA", n |-> "JRWA"]
GMember == [p |-> "JRWPS", n |-> "JRWS"]
GOwner == [p |-> "JRWPASDO", n |-> "JRWASDO"]

Conn(s) == W.conn[s]
GrpExists(g) == S.sub[g][Owner[g]].live
AttachedTo(s, t) == IF t \in P2Ps THEN s \in W.patt[t] ELSE s \in S.top[t].att
Ev(k, t, u, p) == [k |-> k, t |-> t, u |-> u, p |-> p]

\* every drawn step with the permission events the generator expects of it (a wrong guess only makes the behaviour less
\* interesting: the binding reads the events off the recorded store rows)
GenActs ==
  LET cs == {s \in Sessions : Conn(s)}
      A(a) == [a |-> a, ev |-> <<>>]
      \* (session, topic) pairs
      SG == {x \in cs \X Groups : GrpExists(x[2])}
      SP == {x \in cs \X P2Ps : SessUser[x[1]] \in Ends[x[2]]}
      ST == {x \in cs \X SubTopics : AttachedTo(x[1], x[2])}
      U(x) == SessUser[x[1]]
      subme == {A([a |-> "Sub", s |-> s, t |-> "me", get |-> "sub"]) : s \in {x \in cs : x \notin S.top[SessUser[x]].att}}
      leaveme == {A([a |-> "Leave", s |-> s, t |-> "me", unsub |-> FALSE]) : s \in {x \in cs : x \in S.top[SessUser[x]].att}}
      disc == {A([a |-> "Disconnect", s |-> s]) : s \in cs}
      conn == {A([a |-> "Connect", s |-> s]) : s \in Sessions \ cs}
      connbg == {A([a |-> "ConnectBg", sess |-> s, force |-> TRUE]) : s \in Sessions \ cs}
      bgfire == {A([a |-> "BgFire", s |-> s]) : s \in {x \in cs : S.bg[x]}}
      unload == {A([a |-> "Unload", t |-> "me:" \o u]) : u \in {x \in Users : S.top[x].ph = "live" /\ S.top[x].att = {}}}
                \cup {A([a |-> "Unload", t |-> g]) : g \in {x \in Groups : S.top[x].ph = "live" /\ S.top[x].att = {}}}
                \cup {A([a |-> "Unload", t |-> p]) : p \in {x \in P2Ps : W.patt[x] = {} /\ \E u \in Ends[x] : S.sub[x][u].live}}
      newgrp == {[a |-> [a |-> "NewGrp", s |-> x[1], t |-> x[2]], ev |-> <<Ev("row", x[2], Owner[x[2]], TRUE)>>] :
                   x \in {y \in cs \X Groups : ~GrpExists(y[2]) /\ SessUser[y[1]] = Owner[y[2]]}}
      subgrp == {[a |-> [a |-> "Sub", s |-> x[1], t |-> x[2]], ev |-> IF S.sub[x[2]][U(x)].live THEN <<>> ELSE <<Ev("new", x[2], U(x), TRUE)>>] :
                   x \in {y \in SG : y[1] \notin S.top[y[2]].att}}
      leavegrp == {A([a |-> "Leave", s |-> x[1], t |-> x[2], unsub |-> FALSE]) : x \in {y \in SG : y[1] \in S.top[y[2]].att}}
      unsubgrp == {[a |-> [a |-> "Leave", s |-> x[1], t |-> x[2], unsub |-> TRUE], ev |-> <<Ev("gone", x[2], U(x), FALSE)>>] :
                     x \in {y \in SG : y[1] \in S.top[y[2]].att /\ SessUser[y[1]] # Owner[y[2]]}}
      subp2p == {[a |-> [a |-> "Sub", s |-> x[1], t |-> x[2]],
                  ev |-> IF S.sub[x[2]][U(x)].live THEN <<>>
                         ELSE (IF S.sub[x[2]][Peer(x[2], U(x))].live THEN <<>> ELSE <<Ev("row", x[2], Peer(x[2], U(x)), TRUE)>>)
                              \o <<Ev("new", x[2], U(x), TRUE)>>] :
                   x \in {y \in SP : y[1] \notin W.patt[y[2]]}}
      leavep2p == {[a |-> [a |-> "Leave", s |-> x[1], t |-> x[2], unsub |-> b], ev |-> IF b THEN <<Ev("gone", x[2], U(x), FALSE)>> ELSE <<>>] :
                     x \in {y \in SP : y[1] \in W.patt[y[2]]}, b \in BOOLEAN}
      \* own want with / without P (mute, unmute) from an attached session
      SelfMode(t, u) == IF t \in P2Ps THEN (IF S.sub[t][u].P THEN PModes.n ELSE PModes.p)
                        ELSE IF u = Owner[t] THEN (IF S.sub[t][u].P THEN GOwner.n ELSE GOwner.p)
                        ELSE (IF S.sub[t][u].P THEN GMember.n ELSE GMember.p)
      setself == {[a |-> [a |-> "SetSelf", s |-> x[1], t |-> x[2], mode |-> SelfMode(x[2], U(x))],
                   ev |-> <<Ev(IF S.sub[x[2]][U(x)].P THEN "mute" ELSE "unmute", x[2], U(x), FALSE)>>] :
                    x \in {y \in ST : S.sub[y[2]][SessUser[y[1]]].live}}
      \* somebody else's given: invitation, mute / unmute by the manager, ban
      OtherEv(t, u, m) ==
        IF ~S.sub[t][u].live THEN (IF m = "N" THEN <<>> ELSE <<Ev(IF t \in P2Ps THEN "reinvite" ELSE "new", t, u, m \in {"JRWPS", "JRWPA"})>>)
        ELSE IF m = "N" THEN (IF S.sub[t][u].P THEN <<Ev("mute", t, u, FALSE)>> ELSE <<>>) \o <<Ev("evict", t, u, FALSE)>>
        ELSE IF S.sub[t][u].P /\ m \in {"JRWS", "JRWA"} THEN <<Ev("mute", t, u, FALSE)>>
        ELSE IF ~S.sub[t][u].P /\ m \in {"JRWPS", "JRWPA"} THEN <<Ev("unmute", t, u, FALSE)>> ELSE <<>>
      setother == {[a |-> [a |-> "SetOther", s |-> x[1], t |-> x[2], u |-> u, mode |-> m], ev |-> OtherEv(x[2], u, m)] :
                     x \in ST, u \in Users, m \in {"JRWPS", "JRWS", "N", "JRWPA", "JRWA"}}
      setother2 == {x \in setother : /\ x.a.u # SessUser[x.a.s]
                                     /\ (x.a.t \in P2Ps => x.a.u \in Ends[x.a.t] /\ x.a.mode \in {"JRWPA", "JRWA"})
                                     /\ (x.a.t \in Groups => SessUser[x.a.s] = Owner[x.a.t] /\ x.a.mode \in {"JRWPS", "JRWS", "N"})}
      delsub == {[a |-> [a |-> "DelSub", s |-> x[1], t |-> x[2], u |-> u], ev |-> IF S.sub[x[2]][u].live THEN <<Ev("gone", x[2], u, FALSE)>> ELSE <<>>] :
                   x \in {y \in SG : y[1] \in S.top[y[2]].att /\ SessUser[y[1]] = Owner[y[2]]}, u \in Users}
      delsub2 == {x \in delsub : x.a.u # SessUser[x.a.s]}
      \* {del what=topic}: the owner deletes the group (every live subscription goes), an end of the p2p topic leaves it
      GoneAll(g) == LET l == SelectSeq(UserOrder, LAMBDA u : S.sub[g][u].live) IN [i \in DOMAIN l |-> Ev("gone", g, l[i], FALSE)]
      deltopic == {[a |-> [a |-> "DelTopic", s |-> x[1], t |-> x[2], hard |-> h], ev |-> GoneAll(x[2])] :
                     x \in {y \in SG : SessUser[y[1]] = Owner[y[2]]}, h \in BOOLEAN}
                  \cup {[a |-> [a |-> "DelTopic", s |-> x[1], t |-> x[2], hard |-> TRUE], ev |-> <<Ev("gone", x[2], U(x), FALSE)>>] :
                          x \in {y \in SP : S.sub[y[2]][SessUser[y[1]]].live}}
      \* traffic that must not change presence state but produces the notifications clause (2) is about
      pub == {A([a |-> "Pub", s |-> x[1], t |-> x[2], c |-> "c1", noecho |-> FALSE]) : x \in ST}
      note == {A([a |-> "Note", s |-> x[1], t |-> x[2], what |-> w, seq |-> 1]) : x \in ST, w \in {"read", "recv", "kp"}}
      delmsg == {A([a |-> "DelMsg", s |-> x[1], t |-> x[2], ranges |-> << <<1, 0>> >>, hard |-> h]) : x \in ST, h \in BOOLEAN}
      setdesc == {A([a |-> "SetDesc", s |-> x[1], t |-> x[2], public |-> "x", private |-> ""]) : x \in {y \in ST : y[2] \in Groups}}
                 \cup {A([a |-> "SetDesc", s |-> s, t |-> "me", public |-> "y", private |-> ""]) : s \in {x \in cs : x \in S.top[SessUser[x]].att}}
  IN subme \cup leaveme \cup disc \cup conn \cup connbg \cup bgfire \cup unload \cup newgrp \cup subgrp \cup leavegrp \cup unsubgrp
     \cup subp2p \cup leavep2p \cup setself \cup setother2 \cup delsub2 \cup deltopic \cup pub \cup note \cup delmsg \cup setdesc

GenKind(x) == IF x.a.a \in {"Sub", "Leave", "Unload", "SetSelf", "SetOther"} THEN
                 x.a.a \o (IF x.a.t = "me" \/ IsMeName(x.a.t) THEN "me" ELSE IF x.a.t \in Groups THEN "g" ELSE "p")
              ELSE x.a.a
\* presence-relevant kinds are drawn more often than plain traffic
Heavy == {"Subme", "Leaveme", "Unloadme", "Unloadg", "Disconnect", "Subg", "Subp", "SetSelfg", "SetSelfp", "BgFire", "ConnectBg"}
GenDraw ==
  LET acts == GenActs
      kinds == {GenKind(x) : x \in acts}
      \* (CHOOSE over a singleton: each random draw is evaluated exactly once)
      coin == CHOOSE c \in {RandomElement(1..3)} : TRUE
      pool == IF coin = 1 \/ kinds \cap Heavy = {} THEN kinds ELSE kinds \cap Heavy
  IN LET k == CHOOSE c \in {RandomElement(pool)} : TRUE IN RandomElement({x \in acts : GenKind(x) = k})

WStep(a) ==
  CASE a.a = "Disconnect" -> [W EXCEPT !.conn[a.s] = FALSE, !.patt = [p \in P2Ps |-> @[p] \ {a.s}], !.n = @ + 1]
    [] a.a \in {"Connect"} -> [W EXCEPT !.conn[a.s] = TRUE, !.n = @ + 1]
    [] a.a = "ConnectBg" -> [W EXCEPT !.conn[a.sess] = TRUE, !.n = @ + 1]
    [] a.a = "Sub" /\ a.t \in P2Ps -> [W EXCEPT !.patt[a.t] = @ \cup {a.s}, !.n = @ + 1]
    [] a.a = "Leave" /\ a.t \in P2Ps -> [W EXCEPT !.patt[a.t] = IF a.unsub THEN @ \ SessOf(SessUser[a.s]) ELSE @ \ {a.s}, !.n = @ + 1]
    [] a.a = "DelTopic" /\ a.t \in P2Ps -> [W EXCEPT !.patt[a.t] = @ \ SessOf(SessUser[a.s]), !.n = @ + 1]
    [] OTHER -> [W EXCEPT !.n = @ + 1]

GenNext ==
  /\ W.n < MaxDepth
  /\ \E x \in {GenDraw} :
       LET tl == IF "t" \in DOMAIN x.a /\ x.a.t \in P2Ps THEN W.patt[x.a.t] # {} ELSE TRUE
           r == SeqStep(S, x.a, x.ev, [ok |-> TRUE, denied |-> FALSE, fresh |-> TRUE, tl |-> tl, noname |-> {}]) IN
       /\ S' = r.st
       /\ W' = WStep(x.a)
       /\ hist' = Append(hist, x.a)
  /\ UNCHANGED <<mbox, cnt, leak, lost>>

\* one file per behaviour; the last write is the whole behaviour
DumpHist == DumpPrefix = "" \/ hist = <<>> \/
            ndJsonSerialize(DumpPrefix \o ToString(TLCGet("stats").traces) \o ".ndjson", hist)

\* ------------------------------------------------------------------ constant values for the .cfg files
c_UserOrder2 == <<"u1", "u2">>
c_UserOrder3 == <<"u1", "u2", "u3">>
c_SessOrder3 == <<"s1", "s2", "s3">>
c_SessUser3 == [s1 |-> "u1", s2 |-> "u2", s3 |-> "u1"]
c_SessOrder4 == <<"s1", "s2", "s3", "s4">>
c_SessUser4 == [s1 |-> "u1", s2 |-> "u2", s3 |-> "u1", s4 |-> "u2"]
c_SessOrder2 == <<"s1", "s2">>
c_SessUser2 == [s1 |-> "u1", s2 |-> "u2"]
c_NoGroups == <<>>
c_Groups1 == <<"g1">>
c_Ends12 == [p12 |-> {"u1", "u2"}]
c_NoEnds == <<>>
c_NoOwner == <<>>
c_Owner1 == [g1 |-> "u1"]
=============================================================================
