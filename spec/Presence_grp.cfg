\* U1: one group (owner u1, u2 invited / evicted / muted), one session per user on 'me' and on the group; as-intended design
CONSTANTS
  Users = {"u1", "u2"}
  UserOrder <- c_UserOrder2
  Sessions = {"s1", "s2"}
  SessOrder <- c_SessOrder2
  SessUser <- c_SessUser2
  Groups = {"g1"}
  GroupOrder <- c_Groups1
  P2Ps = {}
  Ends <- c_NoEnds
  Owner <- c_Owner1
  Strangers = {}
  DEV_TwoStepUnload = FALSE
  DEV_P2PUnmuteSilent = FALSE
  DEV_BgLeaveRace = FALSE
  DEV_DisconnectClearsBg = FALSE
  DEV_HiBkgIgnored = FALSE
  DEV_UnlistedDisabledOnline = FALSE
  DEV_LoadContactsClobbers = FALSE
  DEV_GoneUnlistedDropped = FALSE
  DEV_P2PLastDelSilent = FALSE
  DEV_ReinviteNoTopicName = FALSE
  DEV_NewGrpNoSupd = FALSE
  DEV_StaleAcrossReload = FALSE
  Kinds = {"me", "grp", "member", "mute"}
  MaxMbox = 3
  MaxUnloads = 2
  MaxPerm = 2
  MaxBg = 0
  MaxDepth = 0
  DumpPrefix = ""
INIT Init
NEXT Next
VIEW View
INVARIANT OnlineCountOK
INVARIANT NoLeakOK
INVARIANT GoneDeliveredOK
INVARIANT QuiescentConverged
CHECK_DEADLOCK FALSE
