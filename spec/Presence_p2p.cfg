\* U1: two users with a p2p subscription, two sessions each; the as-intended design (every DEV_* = FALSE)
CONSTANTS
  Users = {"u1", "u2"}
  UserOrder <- c_UserOrder2
  Sessions = {"s1", "s2", "s3"}
  SessOrder <- c_SessOrder3
  SessUser <- c_SessUser3
  Groups = {}
  GroupOrder <- c_NoGroups
  P2Ps = {"p12"}
  Ends <- c_Ends12
  Owner <- c_NoOwner
  Strangers = {}
  DEV_TwoStepUnload = FALSE
  DEV_P2PUnmuteSilent = FALSE
  DEV_BgLeaveRace = FALSE
  DEV_DisconnectClearsBg = FALSE
  DEV_HiBkgIgnored = FALSE
  DEV_UnlistedDisabledOnline = FALSE
  DEV_LoadContactsClobbers = FALSE
  DEV_GoneUnlistedDropped = FALSE
  DEV_P2PLastDelSilent = FALSE
  DEV_ReinviteNoTopicName = FALSE
  DEV_NewGrpNoSupd = FALSE
  DEV_StaleAcrossReload = FALSE
  Kinds = {"me", "disc", "bg", "mute"}
  MaxMbox = 3
  MaxUnloads = 2
  MaxPerm = 2
  MaxBg = 1
  MaxDepth = 0
  DumpPrefix = ""
INIT Init
NEXT Next
VIEW View
INVARIANT OnlineCountOK
INVARIANT NoLeakOK
INVARIANT GoneDeliveredOK
INVARIANT QuiescentConverged
CHECK_DEADLOCK FALSE
