------------------------------- MODULE Query -------------------------------
(***************************************************************************)
(* C19: the `fnd` query language and the tag rules of tinode/chat.         *)
(*                                                                         *)
(* Text (queries, terms, tags, namespaces) is a sequence of Unicode code   *)
(* points (naturals): TLC cannot index into strings.                       *)
(*                                                                         *)
(*  Sem(q, cfg)   DECLARATIVE meaning of a query string per docs/API.md    *)
(*                ("Query language", "Query rewrite") and the doc comment  *)
(*                of parseSearchQuery: positions -> separators / chunks -> *)
(*                AND / OR terms -> (required groups, optional terms), or  *)
(*                the set of reasons the string is malformed.              *)
(*  Impl(q, cfg)  line-by-line transcription of the parseSearchQuery       *)
(*                automaton of server/utils.go:474-641 (context fields     *)
(*                preOp/postOp/quo/unquote/start/end, `prev`, `emit`).     *)
(*  tag rules     NormalizeTags (utils.go:56), RestrictedFilter /          *)
(*                RestrictedEqual (utils.go:406,155), SliceDeltaAdded      *)
(*                (utils.go:111), Rewrite (utils.go:431), SetTags          *)
(*                (topic.go:2802), FndQuery (topic.go:2418-2463).          *)
(*                                                                         *)
(* As-built deviations (TRUE = what the code does today):                  *)
(*  DEV_QuoteFlagsBeforeEmit   an opening quote sets ctx.quo/ctx.unquote   *)
(*      BEFORE the previous token is emitted, so the emit sees "inside a   *)
(*      quote" and every quoted term that is not the first token of the    *)
(*      query is rejected as "unterminated quoted string" (utils.go:528-   *)
(*      541 vs 580-583,611).                                               *)
(*  DEV_GluedAfterAccepted     an ordinary character right after a closing *)
(*      quote ("a"b) is accepted; the token is then cut by one character   *)
(*      on each side (`a"`), is not a valid tag and is silently dropped    *)
(*      (utils.go:529-531: no check when the quote closes).                *)
(*  DEV_RestrictedNeedsValidBody  filterRestrictedTags recognises a tag as *)
(*      belonging to a namespace only when the WHOLE tag matches           *)
(*      prefixedTagRegexp (body limited to [-_+.!?#@\pL\pN]{1,96}); a tag  *)
(*      such as email:o'brien@example.com (which the e-mail validator      *)
(*      itself produces) is invisible to the immutable / masked namespace  *)
(*      checks (utils.go:33,413).                                          *)
(*  DEV_DelCredEmptyListIsNil  store.Users.UpdateTags returns a nil slice  *)
(*      when no tag is left (SQL adapters: `var allTags []string` + append, *)
(*      postgres/adapter.go:1193, mysql/adapter.go:1343), deleteCred passes *)
(*      it on and Topic.replyDelCred reads nil as "tags not touched"        *)
(*      (topic.go:3144-3155): deleting the credential whose tag was the     *)
(*      LAST tag answers "no action" and leaves the live `me` topic's       *)
(*      cached t.tags stale.                                                *)
(***************************************************************************)
EXTENDS Naturals, Sequences, FiniteSets

CONSTANTS DEV_QuoteFlagsBeforeEmit, DEV_GluedAfterAccepted, DEV_RestrictedNeedsValidBody, DEV_DelCredEmptyListIsNil

ToSet(s) == {s[i] : i \in DOMAIN s}

\* ------------------------------------------------------------------ characters
SP == 32   TAB == 9   COMMA == 44   QUOTE == 34   COLON == 58   AT == 64   DOT == 46
NULLCH == 9249            \* U+2421, the "delete the value" marker (nullValue)

\* strings.ToLower on the characters of the modelled universe (ASCII, U+00C9, U+00DC; CJK has no case)
Lower(c) == IF c >= 65 /\ c <= 90 THEN c + 32 ELSE IF c = 201 THEN 233 ELSE IF c = 220 THEN 252 ELSE c
LowerS(s) == [i \in DOMAIN s |-> Lower(s[i])]

IsAsciiLower(c) == c >= 97 /\ c <= 122
IsAsciiUpper(c) == c >= 65 /\ c <= 90
IsDigit(c)  == c >= 48 /\ c <= 57                                  \* \pN / unicode.IsDigit on the universe
IsLetter(c) == \/ IsAsciiLower(c) \/ IsAsciiUpper(c)                 \* \pL / unicode.IsLetter on the universe:
               \/ c \in {233, 201, 252, 220}                          \* e-acute, u-umlaut (2-byte runes, both cases)
               \/ (c >= 19968 /\ c <= 40959)                           \* CJK unified ideographs (3-byte runes, no case)
IsLN(c)     == IsLetter(c) \/ IsDigit(c)
IsWordCh(c) == IsAsciiLower(c) \/ IsAsciiUpper(c) \/ IsDigit(c) \/ c = 95   \* \w
IsBodyCh(c) == IsLN(c) \/ c \in {45, 95, 43, 46, 33, 63, 35, 64}   \* [-_+.!?#@\pL\pN]
IsSpaceCh(c) == c = SP \/ c = TAB                                   \* unicode.IsSpace on the universe

MinTagLength == 2       \* server/main.go:87
MaxTagLength == 96      \* server/main.go:89

Str_email == <<101, 109, 97, 105, 108>>
Str_tel   == <<116, 101, 108>>
Str_basic == <<98, 97, 115, 105, 99>>

\* ------------------------------------------------------------------ tag syntax (utils.go:29-36)
FirstColon(t) == IF \E i \in DOMAIN t : t[i] = COLON
                 THEN CHOOSE i \in DOMAIN t : t[i] = COLON /\ \A j \in 1..(i - 1) : t[j] # COLON
                 ELSE 0

\* tagRegexp  ^[-_+.!?#@\pL\pN]{1,96}$
IsGeneric(t) == Len(t) >= 1 /\ Len(t) <= 96 /\ \A i \in DOMAIN t : IsBodyCh(t[i])

\* the prefix part of prefixedTagRegexp:  [a-z]\w{1,15}  followed by ':'
ValidPrefixAt(t, k) == /\ k >= 3 /\ k <= 17
                       /\ IsAsciiLower(t[1])
                       /\ \A i \in 2..(k - 1) : IsWordCh(t[i])

\* prefixedTagRegexp  ^([a-z]\w{1,15}):[-_+.!?#@\pL\pN]{1,96}$
IsPrefixed(t) == LET k == FirstColon(t) IN
                   /\ k # 0
                   /\ ValidPrefixAt(t, k)
                   /\ IsGeneric(SubSeq(t, k + 1, Len(t)))

StartsWith(t, p) == Len(t) >= Len(p) /\ SubSeq(t, 1, Len(p)) = p

\* The property-level notion: tag t lives in namespace ns iff it reads "ns:..." (docs/API.md: "Tag may have a
\* prefix which serves as a namespace").
InNS(t, ns) == StartsWith(t, ns \o <<COLON>>)
NsTags(tags, ns) == {t \in tags : InNS(t, ns)}

\* ------------------------------------------------------------------ "looks like" (validators / authenticator)
\* net/mail.ParseAddress(cred) with addr.Address = cred: dot-atom "@" dot-atom over atext
\* (visible, not one of ()<>[]:;@\," ; '.' only between atoms).  server/validate/email/validate.go:222
IsAtext(c) == c > 32 /\ c # 127 /\ c \notin {40, 41, 60, 62, 91, 93, 58, 59, 64, 92, 44, 34, 46}
IsDotAtom(s) == /\ Len(s) >= 1
                /\ \A i \in DOMAIN s : IsAtext(s[i]) \/ s[i] = DOT
                /\ s[1] # DOT /\ s[Len(s)] # DOT
                /\ \A i \in 1..(Len(s) - 1) : ~(s[i] = DOT /\ s[i + 1] = DOT)
EmailLike(t) == /\ Cardinality({i \in DOMAIN t : t[i] = AT}) = 1
                /\ LET k == CHOOSE i \in DOMAIN t : t[i] = AT IN
                     IsDotAtom(SubSeq(t, 1, k - 1)) /\ IsDotAtom(SubSeq(t, k + 1, Len(t)))
                /\ Len(t) <= 128

\* libphonenumber is not modelled: the two spellings of one valid US mobile/fixed number used by the vector
\* domains are tabulated (country code "US"); nothing else over the modelled digits is a valid number.
Tel_plus  == <<43, 49, 52, 49, 53, 53, 53, 53, 49, 50, 49, 50>>      \* +14155551212
Tel_local == <<52, 49, 53, 53, 53, 53, 49, 50, 49, 50>>              \* 4155551212
TelTag(t) == IF t = Tel_plus \/ t = Tel_local THEN Str_tel \o <<COLON>> \o Tel_plus ELSE <<>>

\* auth/basic loginPattern ^[\pL\pN][_.\pL\pN]*[\pL\pN]+$ , 2..32 runes (auth_basic.go:39)
LoginLike(t) == /\ Len(t) >= 2 /\ Len(t) <= 32
                /\ IsLN(t[1]) /\ IsLN(t[Len(t)])
                /\ \A i \in DOMAIN t : IsLN(t[i]) \/ t[i] = 95 \/ t[i] = DOT

\* cfg = [email, tel, basic, login : BOOLEAN]: e-mail / phone validators index their credential as a tag
\* (add_to_tags), the basic authenticator indexes logins, the query is fnd.public (login rewriting on).
AllOn  == [email |-> TRUE, tel |-> TRUE, basic |-> TRUE, login |-> TRUE]
AllOff == [email |-> FALSE, tel |-> FALSE, basic |-> FALSE, login |-> FALSE]
Cfgs   == [email : BOOLEAN, tel : BOOLEAN, basic : BOOLEAN, login : BOOLEAN]

\* rewriteTag (utils.go:431): the tag to add for a lower-cased term, the term itself when nothing applies,
\* <<>> when the term is not a valid tag.
Rewrite(t, cfg) ==
  IF IsPrefixed(t) THEN t
  ELSE IF cfg.email /\ EmailLike(t) THEN Str_email \o <<COLON>> \o t
  ELSE IF cfg.tel /\ TelTag(t) # <<>> THEN TelTag(t)
  ELSE IF cfg.login /\ cfg.basic /\ LoginLike(t) THEN Str_basic \o <<COLON>> \o t
  ELSE IF IsGeneric(t) THEN t
  ELSE <<>>

\* ------------------------------------------------------------------ Sem: the documented language
\* A position is a separator iff it holds a space, tab or comma outside quotes.  Maximal runs of the other
\* positions are chunks; a chunk is a bare word (no quote in it) or one quoted string "...".  A run of
\* separators holding a comma is OR, holding two is malformed; a chunk next to an OR run is an OR term,
\* otherwise an AND term.  Terms are lower-cased, rewritten (Rewrite) and dropped when not a valid tag.
\* SemScan(q) = [errs, terms]: the reasons q is malformed, and its terms [s, op, t] (start position,
\* "and"/"or", lower-cased text; meaningful when errs = {}).
SemScan(q) ==
  LET n == Len(q)
      qb == [i \in 1..n |-> Cardinality({j \in 1..(i - 1) : q[j] = QUOTE})]          \* quotes before position i
      sep == [i \in 1..n |-> q[i] \in {SP, TAB, COMMA} /\ qb[i] % 2 = 0]
      \* a chunk is a maximal run of non-separator positions, named by its first position
      starts == {s \in 1..n : ~sep[s] /\ (s = 1 \/ sep[s - 1])}
      endOf(s) == CHOOSE e \in s..n : (e = n \/ sep[e + 1]) /\ \A k \in s..e : ~sep[k]
      nq(s) == Cardinality({k \in s..endOf(s) : q[k] = QUOTE})
      wf(s) == nq(s) = 0 \/ (nq(s) = 2 /\ q[s] = QUOTE /\ q[endOf(s)] = QUOTE)   \* a bare word or one "quoted string"
      text(s) == IF q[s] = QUOTE THEN SubSeq(q, s + 1, endOf(s) - 1) ELSE SubSeq(q, s, endOf(s))
      \* a comma in the separator run just before / just after the chunk
      commaBefore(s) == \E i \in 1..(s - 1) : q[i] = COMMA /\ \A k \in i..(s - 1) : sep[k]
      commaAfter(s)  == \E i \in (endOf(s) + 1)..n : q[i] = COMMA /\ \A k \in (endOf(s) + 1)..i : sep[k]
      errs == (IF Cardinality({j \in 1..n : q[j] = QUOTE}) % 2 = 1 THEN {"unterminated"} ELSE {})
              \cup (IF \E s \in starts : ~wf(s) THEN {"glued"} ELSE {})
              \cup (IF \E i \in 1..n : q[i] = COMMA /\ sep[i] /\
                         \E j \in (i + 1)..n : q[j] = COMMA /\ \A k \in i..j : sep[k]
                    THEN {"doubled_comma"} ELSE {})
  IN  [errs  |-> errs,
       terms |-> IF errs # {} THEN {}
                 ELSE {[s |-> s, op |-> IF commaBefore(s) \/ commaAfter(s) THEN "or" ELSE "and", t |-> LowerS(text(s))] : s \in starts}]

SemErrs(q)  == SemScan(q).errs
SemTerms(q) == SemScan(q).terms

Group(t, cfg) == IF Rewrite(t, cfg) # t THEN {t, Rewrite(t, cfg)} ELSE {t}

\* required: a set of OR-groups (each a set of terms, at least one of which must match);
\* optional: a set of terms
SemOf(scan, cfg) ==
  LET terms == {x \in scan.terms : x.t # <<>> /\ Rewrite(x.t, cfg) # <<>>} IN
    [errs |-> scan.errs,
     req  |-> {Group(x.t, cfg) : x \in {y \in terms : y.op = "and"}},
     opt  |-> UNION {Group(x.t, cfg) : x \in {y \in terms : y.op = "or"}}]
Sem(q, cfg) == SemOf(SemScan(q), cfg)

\* ------------------------------------------------------------------ Impl: the parseSearchQuery automaton
NONE == 0  QUO == 1  AND == 2  OR == 3  END == 4  ORD == 5

\* strings.TrimSpace
RECURSIVE TrimLeft(_), TrimRight(_)
TrimLeft(s)  == IF s # <<>> /\ IsSpaceCh(s[1]) THEN TrimLeft(Tail(s)) ELSE s
TrimRight(s) == IF s # <<>> /\ IsSpaceCh(s[Len(s)]) THEN TrimRight(SubSeq(s, 1, Len(s) - 1)) ELSE s
Trim(s) == TrimRight(TrimLeft(s))

Ctx0 == [preOp |-> AND, postOp |-> NONE, quo |-> FALSE, unquote |-> FALSE, closed |-> FALSE,
         start |-> 0, end |-> 0, prev |-> NONE, out |-> <<>>, err |-> ""]

\* one iteration of the `for` loop at rune index i (0-based, i = Len(q) is the END lexeme)
Step(q, c, i) ==
  LET \* lexer (utils.go:511-526)
      curr0 == IF i >= Len(q) THEN END
               ELSE IF q[i + 1] = QUOTE THEN QUO
               ELSE IF ~c.quo /\ (q[i + 1] = SP \/ q[i + 1] = TAB) THEN AND
               ELSE IF ~c.quo /\ q[i + 1] = COMMA THEN OR
               ELSE ORD
      \* quote handling (utils.go:528-542)
      closing == curr0 = QUO /\ c.quo
      opening == curr0 = QUO /\ ~c.quo
      gluedBefore == opening /\ c.prev = ORD                        \* a"b
      gluedAfter  == ~DEV_GluedAfterAccepted /\ c.closed /\ curr0 = ORD     \* "a"b  (as intended: rejected)
      curr == IF curr0 = QUO THEN ORD ELSE curr0
      \* the flags as the emit block sees them
      quoSeen == IF closing THEN FALSE
                 ELSE IF opening THEN DEV_QuoteFlagsBeforeEmit
                 ELSE c.quo
      unqSeen == IF opening /\ DEV_QuoteFlagsBeforeEmit THEN TRUE ELSE c.unquote
      \* parser (utils.go:545-578)
      doubled == curr = OR /\ c.postOp = OR
      postOp1 == IF curr = OR THEN OR
                 ELSE IF curr = AND THEN (IF c.prev = ORD THEN AND ELSE IF c.postOp # OR THEN AND ELSE c.postOp)
                 ELSE c.postOp
      end1 == IF curr \in {OR, AND, END} /\ c.prev = ORD THEN i ELSE c.end
      emit == (curr = ORD /\ c.prev \in {OR, AND}) \/ curr = END
      \* emit block (utils.go:580-612)
      op == IF postOp1 = OR THEN OR ELSE c.preOp
      s1 == IF unqSeen THEN c.start + 1 ELSE c.start
      e1 == IF unqSeen THEN end1 - 1 ELSE end1
      out1 == IF emit /\ s1 < e1 THEN Append(c.out, [op |-> op, val |-> LowerS(SubSeq(q, s1 + 1, e1))]) ELSE c.out
  IN
  IF gluedBefore \/ gluedAfter THEN [c EXCEPT !.err = "glued"]                    \* "missing operator"
  ELSE IF doubled THEN [c EXCEPT !.err = "doubled_comma"]                         \* "invalid operator sequence"
  ELSE IF emit /\ quoSeen THEN [c EXCEPT !.err = "unterminated"]                  \* "unterminated quoted string"
  ELSE [preOp   |-> IF emit THEN postOp1 ELSE c.preOp,
        postOp  |-> IF emit THEN NONE ELSE postOp1,
        quo     |-> IF closing THEN FALSE ELSE IF opening THEN TRUE ELSE c.quo,
        unquote |-> IF DEV_QuoteFlagsBeforeEmit
                    THEN (IF emit THEN FALSE ELSE unqSeen)                         \* utils.go:611 undoes the opening quote
                    ELSE (IF opening THEN TRUE ELSE IF emit THEN FALSE ELSE c.unquote),
        closed  |-> closing,
        start   |-> IF emit THEN i ELSE c.start,
        end     |-> end1,
        prev    |-> curr,
        out     |-> out1,
        err     |-> ""]

RECURSIVE Run(_, _, _)
Run(q, c, i) == IF c.err # "" \/ c.prev = END THEN c ELSE Run(q, Step(q, c, i), i + 1)

\* tokens [op, val] in query order, or the error
ImplTokens(q) == Run(Trim(q), Ctx0, 0)

RECURSIVE FlatOr(_, _)
FlatOr(toks, cfg) == IF toks = <<>> THEN <<>>
                     ELSE LET t == Head(toks).val  r == Rewrite(t, cfg) IN
                            (IF r # t THEN <<t, r>> ELSE <<t>>) \o FlatOr(Tail(toks), cfg)

\* the tail of parseSearchQuery: drop invalid tokens, split into `and` / `or` (utils.go:598-640)
ImplOf(c, cfg) ==
  LET kept == SelectSeq(c.out, LAMBDA t : Rewrite(t.val, cfg) # <<>>)
      ands == SelectSeq(kept, LAMBDA t : t.op = AND)
      ors  == SelectSeq(kept, LAMBDA t : t.op = OR)
  IN  IF c.err # "" THEN [err |-> c.err, req |-> <<>>, opt |-> <<>>]
      ELSE [err |-> "",
            req |-> [k \in 1..Len(ands) |-> LET t == ands[k].val  r == Rewrite(t, cfg) IN
                                              IF r # t THEN <<t, r>> ELSE <<t>>],
            opt |-> FlatOr(ors, cfg)]
Impl(q, cfg) == ImplOf(ImplTokens(q), cfg)

ReqSet(req) == {ToSet(req[k]) : k \in DOMAIN req}

ImplOfMatchesSemOf(toks, scan, cfg) ==
  LET i == ImplOf(toks, cfg)  s == SemOf(scan, cfg) IN
    /\ (i.err # "") = (s.errs # {})
    /\ i.err # "" => i.err \in s.errs
    /\ i.err = "" => ReqSet(i.req) = s.req /\ ToSet(i.opt) = s.opt
ImplMatchesSem(q, cfg) == ImplOfMatchesSemOf(ImplTokens(q), SemScan(q), cfg)

\* ------------------------------------------------------------------ tag lists
RECURSIVE LexLess(_, _)
LexLess(a, b) == IF b = <<>> THEN FALSE
                 ELSE IF a = <<>> THEN TRUE
                 ELSE IF a[1] # b[1] THEN a[1] < b[1]
                 ELSE LexLess(Tail(a), Tail(b))

\* sort.Strings (byte order of UTF-8 = code point order): insertion sort, stable
RECURSIVE InsertSorted(_, _), SortStrs(_)
InsertSorted(s, x) == IF s = <<>> THEN <<x>>
                      ELSE IF LexLess(x, s[1]) THEN <<x>> \o s
                      ELSE <<s[1]>> \o InsertSorted(Tail(s), x)
SortStrs(s) == IF s = <<>> THEN <<>> ELSE InsertSorted(SortStrs(SubSeq(s, 1, Len(s) - 1)), s[Len(s)])

\* normalizeTags (utils.go:56-104).  raw = [nil, tags]; result = [nil, tags]
RECURSIVE NormLoop(_, _, _)
NormLoop(src, prev, dst) ==
  IF src = <<>> THEN dst
  ELSE LET curr == Head(src) IN
    IF Len(curr) < MinTagLength \/ Len(curr) > MaxTagLength \/ curr = prev THEN NormLoop(Tail(src), prev, dst)
    ELSE IF ~IsLetter(curr[1]) /\ ~IsDigit(curr[1]) THEN NormLoop(Tail(src), prev, dst)
    ELSE NormLoop(Tail(src), curr, Append(dst, curr))

NormalizeTags(raw, maxCount) ==
  IF raw.nil THEN [nil |-> TRUE, tags |-> <<>>]
  ELSE LET cut == IF Len(raw.tags) > maxCount THEN SubSeq(raw.tags, 1, maxCount) ELSE raw.tags
           low == [i \in DOMAIN cut |-> LowerS(Trim(cut[i]))]
           srt == SortStrs(low)
       IN  IF \E i \in DOMAIN srt : srt[i] = <<NULLCH>> THEN [nil |-> FALSE, tags |-> <<>>]
           ELSE LET dst == NormLoop(srt, <<>>, <<>>) IN [nil |-> dst = <<>>, tags |-> dst]
\* (a Go nil slice and an empty non-nil slice differ: `var dst []string` stays nil when nothing is kept)

\* the property-level statement about one stored tag list
TagNormal(t) == /\ t # <<>> /\ ~IsSpaceCh(t[1]) /\ ~IsSpaceCh(t[Len(t)])
                /\ LowerS(t) = t
                /\ (IsLetter(t[1]) \/ IsDigit(t[1]))
                /\ Len(t) >= MinTagLength /\ Len(t) <= MaxTagLength
TagsNormal(tags, maxCount) == /\ \A i \in DOMAIN tags : TagNormal(tags[i])
                              /\ \A i, j \in DOMAIN tags : i # j => tags[i] # tags[j]
                              /\ Len(tags) <= maxCount

\* filterRestrictedTags (utils.go:406): namespaces is a set of prefixes
RestrictedFilter(tags, nss) ==
  IF nss = {} THEN <<>>
  ELSE SelectSeq(tags, LAMBDA t :
         IF DEV_RestrictedNeedsValidBody
         THEN IsPrefixed(t) /\ SubSeq(t, 1, FirstColon(t) - 1) \in nss
         ELSE \E ns \in nss : InNS(t, ns))

\* restrictedTagsEqual (utils.go:155)
RestrictedEqual(old, new, nss) ==
  LET ro == SortStrs(RestrictedFilter(old, nss))  rn == SortStrs(RestrictedFilter(new, nss)) IN
    Len(ro) = Len(rn) /\ \A i \in DOMAIN rn : ro[i] = rn[i]

\* the `added` result of stringSliceDelta (utils.go:111-151) on already sorted inputs
RECURSIVE DeltaAddedLoop(_, _)
DeltaAddedLoop(o, n) ==
  IF o = <<>> /\ n = <<>> THEN <<>>
  ELSE IF o = <<>> \/ (n # <<>> /\ LexLess(n[1], o[1])) THEN <<n[1]>> \o DeltaAddedLoop(o, Tail(n))
  ELSE IF n = <<>> \/ LexLess(o[1], n[1]) THEN DeltaAddedLoop(Tail(o), n)
  ELSE DeltaAddedLoop(Tail(o), Tail(n))
SliceDeltaAdded(rold, rnew) ==
  IF rold = <<>> /\ rnew = <<>> THEN <<>>
  ELSE IF rold = <<>> THEN rnew
  ELSE IF rnew = <<>> THEN <<>>
  ELSE DeltaAddedLoop(SortStrs(rold), SortStrs(rnew))

\* tags given at creation time: {acc user="new" tags} (user.go:72-81) and {sub topic="new"|"nch" set.tags}
\* (initTopicNewGrp, init_topic.go:581-585, 591, 602).  result = [code, tags]: refused, or the tag list stored
CreateTags(raw, imm, maxCount) ==
  LET n == NormalizeTags(raw, maxCount) IN
    IF ~n.nil /\ n.tags # <<>> /\ ~RestrictedEqual(n.tags, <<>>, imm) THEN [code |-> "denied", tags |-> <<>>]
    ELSE [code |-> "ok", tags |-> n.tags]

\* replySetTags (topic.go:2802-2857) for the owner of a `me` / group topic.
\* result = [code, tags, stored]: reply class, the topic's tags afterwards, whether the store was updated
SetTags(tags, raw, imm, maxCount) ==
  LET n == NormalizeTags(raw, maxCount) IN
    IF n.nil THEN [code |-> "notmodified", tags |-> tags, stored |-> FALSE]
    ELSE IF ~RestrictedEqual(tags, n.tags, imm) THEN [code |-> "denied", tags |-> tags, stored |-> FALSE]
    ELSE IF ToSet(tags) = ToSet(n.tags) THEN [code |-> "notmodified", tags |-> tags, stored |-> FALSE]
    ELSE [code |-> "ok", tags |-> n.tags, stored |-> TRUE]

\* {del what=cred} on a live `me` topic: Topic.replyDelCred (topic.go:3130) -> deleteCred (user.go:482) ->
\* validator.Remove + store.Users.UpdateTags(uid, nil, {method:value}, nil).  `stored` = the tags in the store,
\* `cache` = the topic's t.tags, `tag` = method:value, `has` = the credential exists, `indexed` = the validator
\* is configured with add_to_tags.  result = [code, stored, cache]
DelCredTags(stored, cache, tag, has, indexed) ==
  IF ~has \/ ~indexed THEN [code |-> "noaction", stored |-> stored, cache |-> cache]      \* user.go:528-532 / 545-547
  ELSE LET st == SelectSeq(stored, LAMBDA x : x # tag)                                   \* the adapter removes the tag
           retNil == DEV_DelCredEmptyListIsNil /\ st = <<>>                               \* ... and returns the list left
           removed == ToSet(cache) \ ToSet(st)                                           \* stringSliceDelta(t.tags, tags)
       IN  IF retNil THEN [code |-> "noaction", stored |-> st, cache |-> cache]           \* topic.go:3152-3154
           ELSE [code |-> "ok", stored |-> st, cache |-> IF removed # {} THEN st ELSE cache]

RECURSIVE Flatten(_)
Flatten(ss) == IF ss = <<>> THEN <<>> ELSE Head(ss) \o Flatten(Tail(ss))

\* the fnd branch of replyGetSub (topic.go:2418-2463).  tags = the topic's own tag list;
\* result = [out, req, opt, activeOnly]: "malformed" / "denied" / "store"
FndQuery(tags, q, cfg, msk, isRoot) ==
  LET p == Impl(q, cfg) IN
    IF q = <<>> THEN [out |-> "noquery", req |-> <<>>, opt |-> <<>>, activeOnly |-> FALSE]
    ELSE IF p.err # "" \/ (p.req = <<>> /\ p.opt = <<>>)
    THEN [out |-> "malformed", req |-> <<>>, opt |-> <<>>, activeOnly |-> FALSE]
    ELSE IF SliceDeltaAdded(tags, RestrictedFilter(Flatten(p.req) \o p.opt, msk)) # <<>>
    THEN [out |-> "denied", req |-> <<>>, opt |-> <<>>, activeOnly |-> FALSE]
    ELSE [out |-> "store", req |-> p.req, opt |-> p.opt, activeOnly |-> ~isRoot]
=============================================================================
