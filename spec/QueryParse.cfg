CONSTANTS
  DEV_QuoteFlagsBeforeEmit = FALSE
  DEV_GluedAfterAccepted = FALSE
  DEV_RestrictedNeedsValidBody = FALSE
  DEV_DelCredEmptyListIsNil = FALSE
  Alphabet = {97, 66, 49, 32, 9, 44, 34, 58, 233}
  MaxLen = 5
  CfgNames = {"allon", "alloff"}
SPECIFICATION Spec
INVARIANTS ImplIsSem SemLaws
CHECK_DEADLOCK FALSE
