----------------------------- MODULE QueryParse -----------------------------
(***************************************************************************)
(* U1 design check for the query language of C19: every string of length   *)
(* <= MaxLen over Alphabet is built one character at a time (one state per *)
(* string, so TLC's workers share them) and on every string the automaton  *)
(* transcribed from parseSearchQuery (Impl) must agree with the declarative*)
(* meaning (Sem) for every configuration in CheckCfgs: same verdict        *)
(* (malformed or not, and for a reason Sem also sees), same required       *)
(* OR-groups, same optional terms.                                         *)
(***************************************************************************)
EXTENDS Query, TLC

CONSTANTS Alphabet, MaxLen, CfgNames

VARIABLE q
vars == <<q>>

CfgOf(name) ==
  CASE name = "allon"  -> AllOn
    [] name = "alloff" -> AllOff
    [] name = "nologin" -> [AllOn EXCEPT !.login = FALSE]
    [] name = "nobasic" -> [AllOn EXCEPT !.basic = FALSE]
    [] name = "emailonly" -> [AllOff EXCEPT !.email = TRUE]
    [] name = "telonly" -> [AllOff EXCEPT !.tel = TRUE]
    [] name = "loginonly" -> [AllOff EXCEPT !.basic = TRUE, !.login = TRUE]

Init == q = <<>>
Next == Len(q) < MaxLen /\ \E c \in Alphabet : q' = Append(q, c)
Spec == Init /\ [][Next]_vars

ImplIsSem == LET toks == ImplTokens(q)  scan == SemScan(q) IN
               \A name \in CfgNames : ImplOfMatchesSemOf(toks, scan, CfgOf(name))

\* Laws of the documented language, on Sem itself (the reference must mean what the document says)
SemLaws ==
  LET s == Sem(q, AllOff) IN
    \* surrounding white space is insignificant
    /\ Sem(<<SP>> \o q \o <<TAB>>, AllOff) = s
    \* a query and its upper-cased ASCII spelling mean the same
    /\ Sem([i \in DOMAIN q |-> IF IsAsciiLower(q[i]) THEN q[i] - 32 ELSE q[i]], AllOff) = s
    \* rewriting only ever adds alternatives: with everything indexed every group / optional term is still there
    /\ s.errs = Sem(q, AllOn).errs
    /\ \A g \in s.req : \E h \in Sem(q, AllOn).req : g \subseteq h
    /\ s.opt \subseteq Sem(q, AllOn).opt
    \* no term is both required and optional unless it was written twice; terms are valid tags
    /\ \A g \in s.req : \A t \in g : IsGeneric(t) \/ IsPrefixed(t)
    /\ \A t \in s.opt : IsGeneric(t) \/ IsPrefixed(t)
=============================================================================
