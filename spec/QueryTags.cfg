CONSTANTS
  DEV_QuoteFlagsBeforeEmit = FALSE
  DEV_GluedAfterAccepted = FALSE
  DEV_RestrictedNeedsValidBody = FALSE
  MaxCount = 2
SPECIFICATION Spec
INVARIANTS StoredTagsNormalised MaskedNsOnlyOwn ActiveOnlyForNonRoot StoreGetsTheDocumentedQuery
PROPERTIES ImmutableNsUntouchable RejectedChangesNothing
CHECK_DEADLOCK FALSE
