CONSTANTS
  DEV_QuoteFlagsBeforeEmit = FALSE
  DEV_GluedAfterAccepted = FALSE
  DEV_RestrictedNeedsValidBody = FALSE
  DEV_DelCredEmptyListIsNil = FALSE
  MaxCount = 2
  Small = FALSE
SPECIFICATION Spec
INVARIANTS CreationStoresNoReservedTag CacheEqualsStored ReaddRefused StoredTagsNormalised MaskedNsOnlyOwn ActiveOnlyForNonRoot StoreGetsTheDocumentedQuery
PROPERTIES ImmutableNsUntouchable RejectedChangesNothing
CHECK_DEADLOCK FALSE
