------------------------------ MODULE QueryTags ------------------------------
(***************************************************************************)
(* U1 design check for the tag rules of C19.  One account (`me` topic) or  *)
(* owner-operated group topic carries a tag list `stored`.  For EVERY      *)
(* configuration of reserved namespaces (imm = immutable, msk = masked,    *)
(* both subsets of {rest, email}) the client creates the object with tags  *)
(* (user.go:72 / init_topic.go:573), replaces the tags with {set tags}     *)
(* (Topic.replySetTags) and the server adds validated-credential tags      *)
(* (user.go:381,458 -> store.Users.UpdateTags) and removes them again on   *)
(* {del what=cred} (Topic.replyDelCred -> deleteCred): any sequence.       *)
(* The store's list and the live topic's cached t.tags are two variables.  *)
(* Searches (the fnd branch of Topic.replyGetSub) do not change the state: *)
(* their outcome is checked in every reachable state for every query.      *)
(***************************************************************************)
EXTENDS Query, TLC

CONSTANTS MaxCount,           \* globals.maxTagCount (16 in production; small here so that truncation happens)
          Small               \* TRUE: a reduced vocabulary for the quick tier

T_ab   == <<97, 98>>                                                      \* ab
T_rx   == <<114, 101, 115, 116, 58, 120>>                                 \* rest:x
T_ry   == <<114, 101, 115, 116, 58, 121>>                                 \* rest:y
T_ro   == <<114, 101, 115, 116, 58, 111, 39, 98>>                         \* rest:o'b     (body outside [-_+.!?#@\pL\pN])
T_ea   == <<101, 109, 97, 105, 108, 58, 97, 64, 99, 46, 100>>             \* email:a@c.d
T_eo   == <<101, 109, 97, 105, 108, 58, 111, 39, 98, 64, 99, 46, 100>>    \* email:o'b@c.d (what the validator makes of o'b@c.d)
R_RY   == <<82, 69, 83, 84, 58, 89>>                                      \* REST:Y
T_geo  == <<103, 101, 111, 58, 120>>                                      \* geo:x       (a namespace nobody reserves)
NS_rest  == <<114, 101, 115, 116>>
NS_email == <<101, 109, 97, 105, 108>>
NSs == {NS_rest, NS_email}

RawVocab == {T_ab, <<32, 65, 98, 32>> (* " Ab " *), <<97>> (* a *), <<95, 97, 98>> (* _ab *), T_rx,
             R_RY, T_ro, T_ea, T_eo, <<NULLCH>>, T_geo}
SmallVocab == {T_ab, T_rx, R_RY}
PairVocab == IF Small THEN {T_ab, <<32, 65, 98, 32>>, T_rx, T_ea, T_eo, <<NULLCH>>} ELSE RawVocab \ {<<97>>, <<95, 97, 98>>}
RawLists == {<<>>} \cup [1..1 -> RawVocab] \cup [1..2 -> PairVocab] \cup [1..3 -> SmallVocab]
Raws == {[nil |-> TRUE, tags |-> <<>>]} \cup {[nil |-> FALSE, tags |-> l] : l \in RawLists}

ServerTags == IF Small THEN {T_ea, T_eo} ELSE {T_rx, T_ea, T_eo}

Queries == { T_ab, T_rx,
             <<114, 101, 115, 116, 58, 121, 32, 97, 98>>,          \* rest:y ab
             <<111, 39, 98, 64, 99, 46, 100>>,                     \* o'b@c.d
             <<97, 64, 99, 46, 100>>,                              \* a@c.d
             T_ea,
             <<101, 109, 97, 105, 108, 58, 97, 64, 99, 46, 100, 44, 114, 101, 115, 116, 58, 120>>,  \* email:a@c.d,rest:x
             <<34, 97>>, <<>> }                                    \* "a  (malformed), empty

\* stored = the tag list in the store (users.tags / topics.tags); cache = the live topic's t.tags, loaded from the
\* store when the topic is initialised (init_topic.go:154,647) and kept by the handlers; creds = the validated
\* credentials of the account, named by the tag they generate.
VARIABLES imm, msk, stored, cache, creds, act
vars == <<imm, msk, stored, cache, creds, act>>

Init == /\ imm \in SUBSET NSs
        /\ msk \in SUBSET NSs
        /\ stored = <<>> /\ cache = <<>> /\ creds = {}
        /\ act = [kind |-> "init", code |-> "ok", readd |-> FALSE]

\* user.go:72-81 / init_topic.go:573-577: tags given at creation time
Create(raw) ==
  /\ act.kind = "init"
  /\ LET r == CreateTags(raw, imm, MaxCount) IN
       IF r.code = "denied"
       THEN /\ UNCHANGED <<stored, cache>>
            /\ act' = [kind |-> "create", code |-> "denied", readd |-> FALSE]
       ELSE /\ stored' = r.tags /\ cache' = r.tags
            /\ act' = [kind |-> "create", code |-> "ok", readd |-> FALSE]
  /\ UNCHANGED <<imm, msk, creds>>

\* {set tags}: replySetTags gates the request against the topic's CACHE and overwrites the stored list
Set(raw) ==
  /\ act.kind # "init"
  /\ LET r == SetTags(cache, raw, imm, MaxCount)
         n == NormalizeTags(raw, MaxCount) IN
       /\ cache' = r.tags
       /\ stored' = IF r.stored THEN r.tags ELSE stored
       \* the request asks for a reserved tag the store does not hold (e.g. the tag of a deleted credential)
       /\ act' = [kind |-> "set", code |-> r.code,
                  readd |-> \E t \in ToSet(n.tags) \ ToSet(stored) : \E ns \in imm : InNS(t, ns)]
  /\ UNCHANGED <<imm, msk, creds>>

\* {set cred} with a valid response: the server adds the credential's tag (user.go:381,458 -> UpdateTags) and
\* replySetCred refreshes the cache with the returned list (topic.go:2951)
ServerAdd(t) ==
  /\ act.kind # "init"
  /\ t \notin creds /\ t \notin ToSet(stored) /\ Len(stored) < MaxCount
  /\ stored' = SortStrs(Append(stored, t))
  /\ cache' = stored'
  /\ creds' = creds \cup {t}
  /\ act' = [kind |-> "server", code |-> "ok", readd |-> FALSE]
  /\ UNCHANGED <<imm, msk>>

\* {del what=cred}: the validators index their credentials (add_to_tags) in this machine
DelCred(t) ==
  /\ act.kind # "init"
  /\ LET r == DelCredTags(stored, cache, t, t \in creds, TRUE) IN
       /\ stored' = r.stored
       /\ cache' = r.cache
       /\ act' = [kind |-> "delcred", code |-> r.code, readd |-> FALSE]
  /\ creds' = creds \ {t}
  /\ UNCHANGED <<imm, msk>>

Next == \/ \E raw \in Raws : Create(raw) \/ Set(raw)
        \/ \E t \in ServerTags : ServerAdd(t) \/ DelCred(t)
Spec == Init /\ [][Next]_vars

\* ------------------------------------------------------------------ the property on the model
StoredTagsNormalised == TagsNormal(stored, MaxCount)

\* no client request (creation, {set tags}) adds or removes a reserved-namespace tag of the STORE
ImmutableNsUntouchable ==
  [][act'.kind \in {"create", "set"} => \A ns \in imm : NsTags(ToSet(stored'), ns) = NsTags(ToSet(stored), ns)]_vars

RejectedChangesNothing ==
  [][act'.kind \in {"create", "set"} /\ act'.code # "ok" => stored' = stored /\ cache' = cache]_vars

\* a creation request carrying a tag of an immutable namespace is refused (so the tag is not stored)
CreationStoresNoReservedTag ==
  act.kind = "create" => \A ns \in imm : NsTags(ToSet(stored), ns) = {}

\* after every step the live topic's cache holds exactly the stored tags
CacheEqualsStored == ToSet(cache) = ToSet(stored)

\* credential -> {del cred} -> {set tags [the old reserved tag + anything]} is refused
ReaddRefused == act.kind = "set" /\ act.readd => act.code = "denied"

Terms(r) == ToSet(Flatten(r.req)) \cup ToSet(r.opt)
Searches == {[q |-> q, root |-> root, r |-> FndQuery(stored, q, AllOn, msk, root)] : q \in Queries, root \in BOOLEAN}

MaskedNsOnlyOwn ==
  \A s \in Searches : s.r.out = "store" => \A t \in Terms(s.r) : (\E ns \in msk : InNS(t, ns)) => t \in ToSet(stored)

ActiveOnlyForNonRoot ==
  \A s \in Searches : s.r.out = "store" /\ ~s.root => s.r.activeOnly

StoreGetsTheDocumentedQuery ==
  \A s \in Searches : LET d == Sem(s.q, AllOn) IN
     /\ d.errs # {} => s.r.out # "store"
     /\ s.r.out = "store" => ReqSet(s.r.req) = d.req /\ ToSet(s.r.opt) = d.opt

\* non-vacuity witnesses: the driver checks that TLC REFUTES each of these "never" claims
NeverDeniedSearch == \A s \in Searches : s.r.out # "denied"
NeverMaskedSearchAllowed == \A s \in Searches : ~(s.r.out = "store" /\ \E t \in Terms(s.r) : \E ns \in msk : InNS(t, ns))
NeverSetDenied == ~(act.kind = "set" /\ act.code = "denied")
NeverSetOkWithImmutable == ~(act.kind = "set" /\ act.code = "ok" /\ \E ns \in imm : NsTags(ToSet(stored), ns) # {})
NeverDelCredRemovesTag == ~(act.kind = "delcred" /\ act.code = "ok")
NeverDelCredOfLastTag == ~(act.kind = "delcred" /\ stored = <<>> /\ act.code # "noaction")
NeverCreateDenied == ~(act.kind = "create" /\ act.code = "denied")
NeverCreateWithMaskedOnlyTag == ~(act.kind = "create" /\ act.code = "ok" /\ \E ns \in msk \ imm : NsTags(ToSet(stored), ns) # {})
NeverReaddAttempt == ~(act.kind = "set" /\ act.readd /\ creds = {})
=============================================================================
