------------------------------- MODULE Ranges -------------------------------
(***************************************************************************)
(* Message-id ranges as the delete path uses them (types.Range,            *)
(* RangeSorter, Topic.replyDelMsg).  A range is [low, hi): low inclusive,  *)
(* hi exclusive; hi = 0 (or hi <= low) denotes the single id low.          *)
(***************************************************************************)
EXTENDS Integers, Sequences, FiniteSets

Hi(r) == IF r.hi <= r.low THEN r.low + 1 ELSE r.hi
IdsOf(r) == r.low..(Hi(r) - 1)
Union(rs) == UNION {IdsOf(rs[i]) : i \in DOMAIN rs}

\* RangeSorter.Less: by low ascending, then hi descending
Less(a, b) == a.low < b.low \/ (a.low = b.low /\ a.hi >= b.hi)
IsSorted(rs) == \A i, j \in DOMAIN rs : i < j => Less(rs[i], rs[j]) \/ rs[i] = rs[j]

\* canonical form: ascending, pairwise separated by at least one id (neither overlapping nor touching)
Canonical(rs) == \A i, j \in DOMAIN rs : i < j => Hi(rs[i]) < rs[j].low

\* RangeSorter.Normalize, transcribed (input sorted by Less). DEV_NormalizeInclusive = the pinned code:
\* merges when prev.hi+1 >= low (inclusive reading), never merges after a single id, and does not move kept ranges down.
CONSTANT DEV_NormalizeInclusive

RECURSIVE NormFrom(_, _, _, _)
NormFrom(rs, i, out, prev) ==       \* out: sequence built so far, prev = its last element (kept separately)
  IF i > Len(rs) THEN Append(out, prev)
  ELSE LET cur == rs[i] IN
       IF Hi(prev) >= cur.low
       THEN NormFrom(rs, i + 1, out, IF Hi(cur) > Hi(prev) THEN [prev EXCEPT !.hi = Hi(cur)] ELSE prev)
       ELSE NormFrom(rs, i + 1, Append(out, prev), cur)

\* the pinned (defective) algorithm works in place on an array
RECURSIVE OldNorm(_, _, _)
OldNorm(arr, i, prev) ==
  IF i > Len(arr) THEN SubSeq(arr, 1, prev)
  ELSE IF arr[prev].low = arr[i].low THEN OldNorm(arr, i + 1, prev)
  ELSE IF arr[prev].hi > 0 /\ arr[prev].hi + 1 >= arr[i].low
       THEN OldNorm(IF arr[prev].hi < arr[i].hi THEN [arr EXCEPT ![prev].hi = arr[i].hi] ELSE arr, i + 1, prev)
  ELSE OldNorm(arr, i + 1, prev + 1)

Normalize(rs) ==
  IF Len(rs) <= 1 THEN rs
  ELSE IF DEV_NormalizeInclusive THEN OldNorm(rs, 2, 1)
  ELSE NormFrom(rs, 2, <<>>, rs[1])

\* replyDelMsg's validation and clipping of one client-supplied range against the topic's last id.
\* Returns [ok, r]
Clip(low, hi, last) ==
  IF low > last \/ low < 0 \/ hi < 0 \/ (hi > 0 /\ low > hi) \/ (low = 0 /\ hi = 0) THEN [ok |-> FALSE, r |-> [low |-> 0, hi |-> 0]]
  ELSE IF hi > last THEN [ok |-> TRUE, r |-> [low |-> low, hi |-> last + 1]]
  ELSE IF low = hi \/ low + 1 = hi THEN [ok |-> TRUE, r |-> [low |-> low, hi |-> 0]]
  ELSE [ok |-> TRUE, r |-> [low |-> low, hi |-> hi]]
=============================================================================
