CONSTANTS
  DEV_NormalizeInclusive = FALSE
  MaxId = 6
  MaxLen = 3
INIT Init
NEXT Next
INVARIANTS ExactUnion IsCanonical
CHECK_DEADLOCK FALSE
