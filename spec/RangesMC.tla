------------------------------ MODULE RangesMC ------------------------------
(* U1 for the pure part of C04: every sorted list of up to MaxLen ranges over ids 0..MaxId is normalised to a      *)
(* canonical list denoting exactly the same id set.  The list is grown one range at a time so TLC's workers share. *)
EXTENDS Ranges, TLC
CONSTANTS MaxId, MaxLen
VARIABLE rs
R == [low : 0..MaxId, hi : 0..(MaxId + 1)]
Init == rs = <<>>
Next == Len(rs) < MaxLen /\ \E r \in R : (IF rs = <<>> THEN TRUE ELSE Less(rs[Len(rs)], r)) /\ rs' = Append(rs, r)
ExactUnion == Union(Normalize(rs)) = Union(rs)
IsCanonical == Canonical(Normalize(rs))
=============================================================================
