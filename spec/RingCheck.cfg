\* Default design check (3 nodes, hash space 0..3). tools/props/c17.py writes the configurations it runs itself
\* (1..4 nodes; hash space 0..7 for 1-2 nodes, 0..3/0..5 for 3 nodes, 0..1/0..2 for 4 nodes: quick/thorough).
CONSTANTS
  NodeSeq <- Nodes3
  R = 2
  HMax = 3
  KeyNames <- KeyNames6
SPECIFICATION Spec
INVARIANTS OrderIndependent Total MinimalMovementOnRemove MinimalMovementOnAdd SignatureEqualIffSameRing WellFormed
CHECK_DEADLOCK FALSE
