CONSTANTS
  NodeSeq <- Nodes3
  R = 2
  HMax = 7
  KeyNames <- KeyNames6
SPECIFICATION Spec
INVARIANTS OrderIndependent Total MinimalMovementOnRemove MinimalMovementOnAdd SignatureEqualIffSameRing WellFormed
CHECK_DEADLOCK FALSE
