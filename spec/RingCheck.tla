------------------------------ MODULE RingCheck ------------------------------
(***************************************************************************)
(* U1 design check for the ring half of C17: the laws of the property on   *)
(* RingRef for EVERY hash function over a small hash space.                *)
(*                                                                         *)
(* The hash function is only consulted on the replica strings of the node  *)
(* universe (Itoa(i) ++ name) and on the lookup key; a lookup key is the   *)
(* pair (hash value, name), so "all key strings" = all hash values times   *)
(* tie-break names around/equal to the node names.  TLC walks the tree of  *)
(* partial assignments (one replica string per level) so that its workers  *)
(* share the leaves; the laws are evaluated at the leaves (complete        *)
(* assignments), for every non-empty subset of the universe.               *)
(***************************************************************************)
EXTENDS RingRef, SequencesExt

CONSTANTS NodeSeq,    \* the node universe, a sequence of byte strings
          R,          \* replicas
          HMax,       \* hash space 0..HMax
          KeyNames    \* tie-break names of lookup keys (byte strings)

U == 1..Len(NodeSeq)
\* replica strings in a fixed order: (node 1, replica 0), (node 1, replica 1), ...
NRS == Len(NodeSeq) * R
RS(j) == ReplicaString((j - 1) % R, NodeSeq[((j - 1) \div R) + 1])

VARIABLE asg          \* hash values chosen so far, asg[j] for RS(j)
Init == asg = <<>>
Next == /\ Len(asg) < NRS
        /\ \E v \in 0..HMax : asg' = Append(asg, v)
Spec == Init /\ [][Next]_asg

Complete == Len(asg) = NRS
\* the hash function of this leaf (total on the replica strings of the universe)
H(s) == LET j == CHOOSE j \in 1..NRS : RS(j) = s IN <<0, asg[j]>>

Canon(S) == LET idx == SetToSortSeq(S, <) IN [i \in DOMAIN idx |-> NodeSeq[idx[i]]]
RingOf(S) == Ring(H, R, Canon(S))
Subsets == SUBSET U \ {{}}
Names(S) == {NodeSeq[i] : i \in S}
Keys == (0..HMax) \X KeyNames
Own(ring, key) == OwnerHK(ring, <<0, key[1]>>, key[2])

\* ---- the laws (property C17, ring half) -------------------------------
OrderIndependent ==
  Complete => \A S \in Subsets :
     \A p \in Permutations(S) :  \* p: a bijection S -> S; list the nodes in the order p induces
        LET base == SetToSortSeq(S, <)
            listing == [i \in DOMAIN base |-> NodeSeq[p[base[i]]]]
        IN /\ Ring(H, R, listing) = RingOf(S)
           /\ Signature(Ring(H, R, listing)) = Signature(RingOf(S))

Total ==
  Complete => \A S \in Subsets : LET ring == RingOf(S) IN
     \A key \in Keys : Own(ring, key) \in Names(S)

MinimalMovementOnRemove ==
  Complete => \A S \in Subsets : Cardinality(S) >= 2 =>
     LET ring == RingOf(S) IN
     \A n \in S : LET less == RingOf(S \ {n}) IN
        \A key \in Keys : Own(ring, key) # NodeSeq[n] => Own(less, key) = Own(ring, key)

MinimalMovementOnAdd ==
  Complete => \A S \in Subsets : LET ring == RingOf(S) IN
     \A n \in U \ S : LET more == RingOf(S \cup {n}) IN
        \A key \in Keys : Own(more, key) \in {Own(ring, key), NodeSeq[n]}

\* equal signature <=> same node set (so that nodes with different membership detect it)
SignatureEqualIffSameRing ==
  Complete => \A S1, S2 \in Subsets :
     (Signature(RingOf(S1)) = Signature(RingOf(S2))) <=> (S1 = S2)

\* the ring really is the sorted replica list and lookup agrees with a linear scan of it
WellFormed ==
  Complete => \A S \in Subsets : LET ring == RingOf(S) IN
     /\ Len(ring) = R * Cardinality(S)
     /\ \A i \in 1..(Len(ring) - 1) : ~ElemLess(ring[i + 1], ring[i])

\* ---- model values for the .cfg files (a cfg cannot spell nested tuples) ----
\* node names "b","d","f","h"; key names "", "a", "b" (= a node), "c", "d0", "i"
Nodes1 == << <<98>> >>
Nodes2 == << <<98>>, <<100>> >>
Nodes3 == << <<98>>, <<100>>, <<102>> >>
Nodes4 == << <<98>>, <<100>>, <<102>>, <<104>> >>
KeyNames6 == { <<>>, <<97>>, <<98>>, <<99>>, <<100, 48>>, <<105>> }
=============================================================================
