------------------------------ MODULE RingCheck ------------------------------
(***************************************************************************)
(* U1 design check for the ring half of C17: the laws of the property on   *)
(* RingRef for EVERY hash function over a small hash space.                *)
(*                                                                         *)
(* The hash function is only consulted on the replica strings of the node  *)
(* universe (Itoa(i) ++ name) and on the lookup key; a lookup key is the   *)
(* pair (hash value, name), so "all key strings" = all hash values times   *)
(* tie-break names below / equal to / between / above the node names.      *)
(* TLC walks the tree of partial assignments (one replica string per       *)
(* level) so that its workers share the leaves.  On completing an          *)
(* assignment the rings of all non-empty subsets of the universe and the   *)
(* owner of every key in each of them are computed once (variable `tab`);  *)
(* the laws are invariants over `tab`.                                     *)
(***************************************************************************)
EXTENDS RingRef, SequencesExt

CONSTANTS NodeSeq,    \* the node universe, a sequence of byte strings
          R,          \* replicas
          HMax,       \* hash space 0..HMax
          KeyNames    \* tie-break names of lookup keys (byte strings)

U == 1..Len(NodeSeq)
NRS == Len(NodeSeq) * R        \* replica strings: (node 1, replica 0), (node 1, replica 1), ...
Subsets == SUBSET U \ {{}}
Names(S) == {NodeSeq[i] : i \in S}
Keys == (0..HMax) \X KeyNames

VARIABLES asg,        \* hash values chosen so far: asg[(n-1)*R + i + 1] = hash of replica i of node n
          tab         \* <<>> until the assignment is complete, then [ring, own]
vars == <<asg, tab>>

\* the hash function of a leaf, as RingRef wants it: total on the replica strings of the universe
RSTab == [j \in 1..NRS |-> ReplicaString((j - 1) % R, NodeSeq[((j - 1) \div R) + 1])]
HashOf(a, s) == LET j == CHOOSE j \in 1..NRS : RSTab[j] = s IN <<0, a[j]>>

Listing(S, p) == LET base == SetToSortSeq(S, <) IN [i \in DOMAIN base |-> NodeSeq[p[base[i]]]]
Ident(S) == [x \in S |-> x]

Tables(a) ==
  LET H(s) == HashOf(a, s)
      ring == [S \in Subsets |-> Ring(H, R, Listing(S, Ident(S)))]
  IN [ring |-> ring,
      own  |-> [S \in Subsets |-> [key \in Keys |-> OwnerHK(ring[S], <<0, key[1]>>, key[2])]],
      perm |-> [S \in Subsets |-> {Ring(H, R, Listing(S, p)) : p \in Permutations(S)}]]

Init == asg = <<>> /\ tab = <<>>
Next == /\ Len(asg) < NRS
        /\ \E v \in 0..HMax :
              /\ asg' = Append(asg, v)
              /\ tab' = IF Len(asg) + 1 = NRS THEN Tables(asg') ELSE <<>>
Spec == Init /\ [][Next]_vars

Complete == Len(asg) = NRS

\* ---- the laws (property C17, ring half) -------------------------------
\* whatever order the nodes are listed in: the same ring, hence the same owners and signature
OrderIndependent ==
  Complete => \A S \in Subsets :
     /\ tab.perm[S] = {tab.ring[S]}
     /\ {Signature(r) : r \in tab.perm[S]} = {Signature(tab.ring[S])}

\* every key maps to exactly one node, and it is a member
Total ==
  Complete => \A S \in Subsets : \A key \in Keys : tab.own[S][key] \in Names(S)

\* removing a node moves only the keys it owned
MinimalMovementOnRemove ==
  Complete => \A S \in Subsets : Cardinality(S) >= 2 =>
     \A n \in S : \A key \in Keys :
        tab.own[S][key] # NodeSeq[n] => tab.own[S \ {n}][key] = tab.own[S][key]

\* adding a node moves keys only to it
MinimalMovementOnAdd ==
  Complete => \A S \in Subsets : \A n \in U \ S : \A key \in Keys :
     tab.own[S \cup {n}][key] \in {tab.own[S][key], NodeSeq[n]}

\* equal signature <=> same membership (so that nodes with different membership detect it)
SignatureEqualIffSameRing ==
  Complete => \A S1, S2 \in Subsets :
     (Signature(tab.ring[S1]) = Signature(tab.ring[S2])) <=> (S1 = S2)

\* the ring is the sorted replica list
WellFormed ==
  Complete => \A S \in Subsets : LET ring == tab.ring[S] IN
     /\ Len(ring) = R * Cardinality(S)
     /\ \A i \in 1..(Len(ring) - 1) : ~ElemLess(ring[i + 1], ring[i])
     /\ {ring[i].k : i \in DOMAIN ring} = Names(S)

\* ---- model values for the .cfg files (a cfg cannot spell nested tuples) ----
\* node names "b","d","f","h"; key names "", "a", "b" (= a node), "c", "d0", "i"
Nodes1 == << <<98>> >>
Nodes2 == << <<98>>, <<100>> >>
Nodes3 == << <<98>>, <<100>>, <<102>> >>
Nodes4 == << <<98>>, <<100>>, <<102>>, <<104>> >>
KeyNames6 == { <<>>, <<97>>, <<98>>, <<99>>, <<100, 48>>, <<105>> }
=============================================================================
