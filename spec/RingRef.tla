------------------------------- MODULE RingRef -------------------------------
(***************************************************************************)
(* Reference semantics of the consistent-hash ring of                      *)
(* server/ringhash/ringhash.go for an ARBITRARY hash function.             *)
(*                                                                         *)
(* Strings (node names, lookup keys) are sequences of byte values, because *)
(* the ring breaks hash ties by Go's bytewise string order and TLC cannot  *)
(* look inside strings.  A hash value is a pair <<hi, lo>> of 16-bit       *)
(* halves (TLC integers are 32 bit signed, CRC32 is 32 bit unsigned).      *)
(* The hash function is a parameter H: a function from byte strings to     *)
(* hash values (a constant table in the design check, the recorded table   *)
(* in the binding).                                                        *)
(*                                                                         *)
(* Transcription:                                                          *)
(*   Ring.Add   ringhash.go:70-78   replica i of node k is the element     *)
(*              (hash(Itoa(i) ++ k), k); all replicas sorted by            *)
(*              sortable.Less (27-36): hash, then node name.               *)
(*   Ring.Get   ringhash.go:100-120 first element e in sorted order with   *)
(*              e.hash > h \/ (e.hash = h /\ e.key >= key), h = hash(key); *)
(*              wrap to the first element; "" for the empty ring.          *)
(*   Signature  ringhash.go:80-96   digest of the sorted (hash,name) list; *)
(*              here: the sorted list itself.                              *)
(***************************************************************************)
EXTENDS Integers, Sequences, FiniteSets, TLC

\* ------------------------------------------------------------ byte strings
MinI(a, b) == IF a < b THEN a ELSE b

\* Go's s < t on strings (bytewise lexicographic)
LexLess(s, t) ==
  \E i \in 1..(MinI(Len(s), Len(t)) + 1) :
     /\ \A j \in 1..(i - 1) : s[j] = t[j]
     /\ \/ (i > Len(s) /\ i <= Len(t))
        \/ (i <= Len(s) /\ i <= Len(t) /\ s[i] < t[i])
LexLeq(s, t) == s = t \/ LexLess(s, t)

\* strconv.Itoa for a non-negative number, as bytes
RECURSIVE Itoa(_)
Itoa(i) == IF i < 10 THEN <<48 + i>> ELSE Itoa(i \div 10) \o <<48 + (i % 10)>>

\* the string hashed for replica i of node k: strconv.Itoa(i) + key (ringhash.go:74)
ReplicaString(i, k) == Itoa(i) \o k

\* ------------------------------------------------------------ hash values
HLess(a, b) == a[1] < b[1] \/ (a[1] = b[1] /\ a[2] < b[2])

\* ------------------------------------------------------------ the ring
\* sortable.Less (ringhash.go:27-36)
ElemLess(a, b) == HLess(a.h, b.h) \/ (a.h = b.h /\ LexLess(a.k, b.k))

\* Ring.Add(listing...) on an empty ring with `r` replicas: append in listing order, then sort.
Unsorted(H(_), r, listing) ==
  [j \in 1..(Len(listing) * r) |->
      LET n == listing[((j - 1) \div r) + 1]
          i == (j - 1) % r
      IN [h |-> H(ReplicaString(i, n)), k |-> n]]

Ring(H(_), r, listing) == SortSeq(Unsorted(H, r, listing), ElemLess)

\* Ring.Get for a key with hash `h` and name `key`
OwnerHK(ring, h, key) ==
  IF Len(ring) = 0 THEN <<>>
  ELSE LET hit(i) == HLess(h, ring[i].h) \/ (ring[i].h = h /\ LexLeq(key, ring[i].k))
           cand == {i \in 1..Len(ring) : hit(i)}
           idx == IF cand = {} THEN 1 ELSE CHOOSE i \in cand : \A j \in cand : i <= j
       IN ring[idx].k

Owner(H(_), ring, key) == OwnerHK(ring, H(key), key)

\* Ring.Signature: abstractly, the sorted replica list itself
Signature(ring) == ring

Range(s) == {s[i] : i \in DOMAIN s}
=============================================================================
