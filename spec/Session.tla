------------------------------- MODULE Session -------------------------------
(***************************************************************************)
(* Handshake / authentication automaton of one client connection of        *)
(* tinode/chat (server/session.go dispatch, hello, login, onLogin, acc,    *)
(* authSecretReset; server/user.go replyCreateUser, replyUpdateUser) and   *)
(* the session-level routing of the seven topic-addressed message kinds    *)
(* (expandTopicName, subscribe, leave, publish, get, set, del, note).      *)
(*                                                                         *)
(* One operator per function of the code, transcribed in the code's order  *)
(* of checks.  `Dispatch(st, m)` yields the SET of outcomes the model      *)
(* allows for abstract client message m in session state st: the reply     *)
(* (exact code where the session layer decides, a class where the hub /    *)
(* topic layer decides), the next session state, the data delivered to a   *)
(* reader of the group topic, and whether the server process panics.       *)
(*                                                                         *)
(* Used three ways: (U1) design check of the C11 clauses over all          *)
(* transitions of the model (Session_MC); generation of abstract message   *)
(* sequences replayed into the real server; prediction against which the   *)
(* recorded real replies / projected state are compared (Monitor_C11), and *)
(* input classification + reply oracle for C13 (Monitor_C13).              *)
(*                                                                         *)
(* Environment (fixed, mirrors the Go harness zz_verif_c11_env_test.go):   *)
(* accounts alice (auth, credential validated), root (level root), carol   *)
(* (auth; the target of extra.obo and of p2p addressing), susp (suspended),*)
(* gone (soft-deleted), needy (auth, credential NOT validated), exp (basic *)
(* record expired), bob (owner of group g1 and its attached reader); the   *)
(* account created by an {acc} of the session itself is called "new".      *)
(***************************************************************************)
EXTENDS Naturals, Sequences, FiniteSets, TLC

CONSTANTS
  Validators,                 \* BOOLEAN: a credential validator is required for level auth (globals.authValidators)
  DEV_AccUnknownTmpNoReturn,  \* session.go acc(): unknown tmpscheme replies 401, falls through, calls Authenticate on a nil handler
  DEV_NoteCallBadTopicPanics, \* session.go note(): types.GetTopicCat on an unvalidated topic name (session goroutine)
  DEV_DelTopicBadNamePanics,  \* hub.go topicUnreg(): topicCat on an unvalidated topic name (HUB goroutine)
  DEV_LeaveOboSilent,         \* topic.go handleLeaveRequest(): no reply when the session is attached as another user than asUid
  TrackTok                    \* BOOLEAN: model the token handed out in params.token of login replies (needed by {login token=prev});
                              \* FALSE only shrinks the state space of the design check over the message universe without prev/conn

\* ------------------------------------------------------------------ abstract client messages
Blank == [k |-> "-", v |-> "-", sch |-> "-", sec |-> "-", usr |-> "-", lg |-> "-", tmp |-> "-", st |-> "-",
          t |-> "-", w |-> "-", o |-> "none"]
MHi(v)          == [Blank EXCEPT !.k = "hi", !.v = v]
MLogin(sch, sc) == [Blank EXCEPT !.k = "login", !.sch = sch, !.sec = sc]
MAcc(usr, lg, sch, tmp, st, o) ==
  [Blank EXCEPT !.k = "acc", !.usr = usr, !.lg = lg, !.sch = sch, !.tmp = tmp, !.st = st, !.o = o]
MTop(k, t, w, o) == [Blank EXCEPT !.k = k, !.t = t, !.w = w, !.o = o]
\* the client drops the connection and opens a fresh one (handshake {hi ver="0.22"} included); it remembers the last token it was given
MConn == [Blank EXCEPT !.k = "conn"]

HiVers    == {"A", "B", "old", "bad", "empty"}                \* "0.22", "0.23", "0.15", "xyz", ""
BasicSecs == {"right", "rightroot", "wrong", "expired", "suspended", "deleted", "needscred", "nouser", "malformed"}
TokenSecs == {"right", "rightroot", "wrong", "expired", "suspended", "deleted", "nologin", "needscred", "malformed", "prev"}
   \* prev = the token in params.token of the most recent reply to this client that carried one (nothing pre-made)
ResetSecs == {"known", "unknown", "malformed", "unsupported"}
OboClasses == {"none", "valid", "validroot", "bad", "lvl"}   \* lvl = extra.authlevel="root" without extra.obo
TopicClasses == {"me", "fnd", "grp", "nogrp", "usr", "nousr", "sys", "empty", "bad", "bad3", "bad6", "new"}
   \* grp = existing group g1; nogrp = well-formed name of no topic; usr = carol's user id; nousr = "usr" + undecodable;
   \* bad = "zz", bad3 = "grp", bad6 = "zzzzzz"; new = "new" + unique suffix
OboTopics == {"me", "grp", "usr", "bad"}   \* as-user resolution precedes (and is independent of) topic-name expansion
Whats == [sub |-> {"none"}, leave |-> {"none", "unsub"}, pub |-> {"forged"},
          get |-> {"desc", "sub", "data", "bad"}, set |-> {"desc", "tags", "none"},
          del |-> {"msg", "topic", "user", "bad"}, note |-> {"read", "recv", "kp", "call", "bad"}]
TopicKinds == {"sub", "leave", "pub", "get", "set", "del", "note"}

AllMsgs ==
  {MHi(v) : v \in HiVers}
  \cup {MLogin("basic", s) : s \in BasicSecs} \cup {MLogin("token", s) : s \in TokenSecs}
  \cup {MLogin("reset", s) : s \in ResetSecs} \cup {MLogin("unknown", "x")} \cup {MConn}
  \cup {MAcc("new", lg, sch, "none", st, o) : lg \in {"T", "F"}, sch \in {"basic", "basicR", "dup", "malformed", "unknown", "none"},
                                            st \in {"T", "F"}, o \in {"none", "lvl"}}
  \cup {MAcc(u, "F", sch, tmp, st, "none") : u \in {"self", "other", "bad"}, sch \in {"basic", "none"},
                                           tmp \in {"none", "tokR", "tokW", "code", "unknown"}, st \in {"T", "F"}}
  \cup UNION {{MTop(k, t, w, "none") : t \in TopicClasses, w \in Whats[k]} : k \in TopicKinds}
  \cup UNION {{MTop(k, t, w, o) : t \in OboTopics, w \in Whats[k], o \in OboClasses \ {"none"}} : k \in TopicKinds}

\* ------------------------------------------------------------------ environment
Acct == [alice |-> [state |-> "ok",   lvl |-> "auth", cred |-> TRUE,  expired |-> FALSE],
         root  |-> [state |-> "ok",   lvl |-> "root", cred |-> FALSE, expired |-> FALSE],
         susp  |-> [state |-> "susp", lvl |-> "auth", cred |-> TRUE,  expired |-> FALSE],
         gone  |-> [state |-> "del",  lvl |-> "auth", cred |-> TRUE,  expired |-> FALSE],
         needy |-> [state |-> "ok",   lvl |-> "auth", cred |-> FALSE, expired |-> FALSE],
         exp   |-> [state |-> "ok",   lvl |-> "auth", cred |-> TRUE,  expired |-> TRUE]]

\* whose basic login a secret class names ("" = no such login)
BasicWho(sc) == CASE sc \in {"right", "wrong"} -> "alice" [] sc = "rightroot" -> "root" [] sc = "expired" -> "exp"
                  [] sc = "suspended" -> "susp" [] sc = "deleted" -> "gone" [] sc = "needscred" -> "needy" [] OTHER -> ""

\* issued tokens: [u, l, validated (feature V), nologin (feature L), expired, sigok]
Tok(sc) == CASE sc = "right"     -> [u |-> "alice", l |-> "auth", validated |-> TRUE,  nologin |-> FALSE, expired |-> FALSE, sigok |-> TRUE]
             [] sc = "rightroot" -> [u |-> "root",  l |-> "root", validated |-> TRUE,  nologin |-> FALSE, expired |-> FALSE, sigok |-> TRUE]
             [] sc = "wrong"     -> [u |-> "alice", l |-> "auth", validated |-> TRUE,  nologin |-> FALSE, expired |-> FALSE, sigok |-> FALSE]
             [] sc = "expired"   -> [u |-> "alice", l |-> "auth", validated |-> TRUE,  nologin |-> FALSE, expired |-> TRUE,  sigok |-> TRUE]
             [] sc = "suspended" -> [u |-> "susp",  l |-> "auth", validated |-> TRUE,  nologin |-> FALSE, expired |-> FALSE, sigok |-> TRUE]
             [] sc = "deleted"   -> [u |-> "gone",  l |-> "auth", validated |-> TRUE,  nologin |-> FALSE, expired |-> FALSE, sigok |-> TRUE]
             [] sc = "nologin"   -> [u |-> "alice", l |-> "auth", validated |-> TRUE,  nologin |-> TRUE,  expired |-> FALSE, sigok |-> TRUE]
             [] sc = "needscred" -> [u |-> "needy", l |-> "auth", validated |-> FALSE, nologin |-> FALSE, expired |-> FALSE, sigok |-> TRUE]

\* ------------------------------------------------------------------ session state
\* ver: "0" (no handshake) | "A" | "B";  uid: "" | "alice" | "root" | "new";  lvl: "" | "auth" | "root"
\* att: set of [t |-> abstract topic, u |-> the user the session attached as];  crashed: the server process is gone
\* rst: a password-reset code for carol's credential has been issued (the `code` authenticator refuses a second one: 409)
\* tok: the last token handed out to this client in a reply (params.token of onLogin): whose, at which level, with which features
\*      (validated = feature V, nologin = feature L), cred = that account has its required credential validated, code = the reply
\*      it came with (300 'validate credentials' | 200); code 0 = none yet
NoTok == [u |-> "", l |-> "", validated |-> FALSE, nologin |-> FALSE, cred |-> FALSE, code |-> 0]
InitSt == [ver |-> "0", uid |-> "", lvl |-> "", att |-> {}, rst |-> FALSE, tok |-> NoTok, crashed |-> FALSE]
Issue(st, u, l, validated, nologin, cred, code) ==
  IF TrackTok THEN [st EXCEPT !.tok = [u |-> u, l |-> l, validated |-> validated, nologin |-> nologin, cred |-> cred, code |-> code]] ELSE st
AttTopics(st) == {a.t : a \in st.att}
AttAs(st, r) == CHOOSE a \in st.att : a.t = r

\* reply prediction: code 0 = no reply; 1 = some reply (any code); 2 = some reply, 2xx; 3 = some reply, every code >= 300;
\* otherwise the exact code.  echo = the reply carries the request id (FALSE: replies built before the id is known, or notes).
Rep(code, echo) == [code |-> code, echo |-> echo]
NoDlv == {}
Out(rep, st)          == [rep |-> rep, st |-> st, crash |-> FALSE, dlv |-> NoDlv]
OutDlv(rep, st, d)    == [rep |-> rep, st |-> st, crash |-> FALSE, dlv |-> {d}]
OutCrash(rep, st)     == [rep |-> rep, st |-> [st EXCEPT !.crashed = TRUE], crash |-> TRUE, dlv |-> NoDlv]
Err(code, st)         == {Out(Rep(code, TRUE), st)}

\* ------------------------------------------------------------------ dispatch: as-user resolution (session.go:480-505)
Resolve(st, m) ==
  IF m.o \in {"none", "lvl"} THEN [ok |-> TRUE, u |-> st.uid, l |-> st.lvl, code |-> 0]
  ELSE IF st.lvl # "root" THEN [ok |-> FALSE, u |-> "", l |-> "", code |-> 403]   \* only root may act for another user
  ELSE IF m.o = "bad" THEN [ok |-> FALSE, u |-> "", l |-> "", code |-> 400]       \* ill-formed extra.obo
  ELSE [ok |-> TRUE, u |-> "carol", l |-> IF m.o = "validroot" THEN "root" ELSE "auth", code |-> 0]

\* ------------------------------------------------------------------ hello (session.go:734-868)
Hello(st, m) ==
  IF st.ver = "0"
  THEN CASE m.v \in {"A", "B"} -> {Out(Rep(201, TRUE), [st EXCEPT !.ver = m.v])}
         [] m.v = "old"        -> Err(505, st)
         [] OTHER              -> Err(400, st)                     \* unparseable or missing version
  ELSE IF m.v = "empty" \/ m.v = st.ver THEN {Out(Rep(201, TRUE), st)}
  ELSE Err(409, st)                                                \* version cannot be changed mid-session

\* ------------------------------------------------------------------ login (session.go:908-981), onLogin (1041-1092)
\* result of handler.Authenticate: [ok, code, u, l, validated, nologin]
AuthFail(code) == [ok |-> FALSE, code |-> code, u |-> "", l |-> "", validated |-> FALSE, nologin |-> FALSE]
AuthBasic(sc) ==
  IF sc = "malformed" THEN AuthFail(400)
  ELSE IF BasicWho(sc) = "" THEN AuthFail(401)
  ELSE IF Acct[BasicWho(sc)].expired THEN AuthFail(401)
  ELSE IF sc = "wrong" THEN AuthFail(401)
  ELSE [ok |-> TRUE, code |-> 0, u |-> BasicWho(sc), l |-> Acct[BasicWho(sc)].lvl, validated |-> FALSE, nologin |-> FALSE]
AuthToken(sc) ==
  IF sc = "malformed" THEN AuthFail(400)
  ELSE IF ~Tok(sc).sigok THEN AuthFail(401)
  ELSE IF Tok(sc).expired THEN AuthFail(401)
  ELSE [ok |-> TRUE, code |-> 0, u |-> Tok(sc).u, l |-> Tok(sc).l, validated |-> Tok(sc).validated, nologin |-> Tok(sc).nologin]

AcctState(u) == IF u \in DOMAIN Acct THEN Acct[u].state ELSE "ok"
AcctCred(u)  == IF u \in DOMAIN Acct THEN Acct[u].cred ELSE FALSE
\* the token the previous reply handed out: signed by the server, not expired; its features are what onLogin put into it
AuthPrev(st) ==
  IF st.tok.code = 0 THEN AuthFail(400)                            \* the client has no token: it sends a malformed one
  ELSE [ok |-> TRUE, code |-> 0, u |-> st.tok.u, l |-> st.tok.l, validated |-> st.tok.validated, nologin |-> st.tok.nologin]

NeedsCred(l, validated, cred) == ~validated /\ Validators /\ l = "auth" /\ ~cred

Login(st, m) ==
  IF m.sch = "reset"
  THEN CASE m.sec = "malformed"   -> Err(400, st)
         [] m.sec = "unsupported" -> Err(501, st)
         [] m.sec = "unknown"     -> Err(301, st)                  \* no such credential: reported as success
         [] st.rst                -> Err(409, st)                  \* as built: a reset code for this credential already exists
         [] OTHER                 -> {Out(Rep(301, TRUE), [st EXCEPT !.rst = TRUE])}   \* InfoAuthReset; the SESSION never changes
  ELSE IF st.uid # "" THEN Err(409, st)                            \* already authenticated
  ELSE IF m.sch = "unknown" THEN Err(401, st)
  ELSE LET rec  == IF m.sch = "basic" THEN AuthBasic(m.sec) ELSE IF m.sec = "prev" THEN AuthPrev(st) ELSE AuthToken(m.sec)
           cred == IF m.sec = "prev" THEN st.tok.cred ELSE AcctCred(rec.u) IN
    IF ~rec.ok THEN Err(rec.code, st)
    ELSE IF AcctState(rec.u) = "del" THEN Err(404, st)
    ELSE IF AcctState(rec.u) # "ok" THEN Err(403, st)
    \* onLogin (session.go:1041-1092) ALWAYS puts a token into the reply: with the incoming features when credentials are
    \* missing (300), with feature V added otherwise (200); feature L (no-login) is kept
    ELSE IF NeedsCred(rec.l, rec.validated, cred)                  \* InfoValidateCredentials: NOT authenticated
      THEN {Out(Rep(300, TRUE), Issue(st, rec.u, rec.l, FALSE, rec.nologin, cred, 300))}
    ELSE IF rec.nologin                                            \* token not suitable for session authentication
      THEN {Out(Rep(200, TRUE), Issue(st, rec.u, rec.l, TRUE, TRUE, cred, 200))}
    ELSE {Out(Rep(200, TRUE), Issue([st EXCEPT !.uid = rec.u, !.lvl = rec.l], rec.u, rec.l, TRUE, FALSE, cred, 200))}

\* ------------------------------------------------------------------ acc (session.go:870-906, user.go:24-266)
CreateUser(st, m, as) ==
  IF m.lg = "T" /\ st.uid # "" THEN Err(409, st)
  ELSE IF m.sch \in {"unknown", "none"} THEN Err(400, st)
  ELSE IF m.sch = "malformed" THEN Err(400, st)
  ELSE IF m.sch = "dup" THEN Err(409, st)
  ELSE IF m.st = "T" /\ as.l # "root" THEN Err(403, st)           \* account state may be assigned by root only
  ELSE IF m.lg = "F" THEN Err(201, st)
  ELSE IF Validators /\ m.sch = "basic"                            \* credential not validated yet: NOT authenticated
    THEN {Out(Rep(300, TRUE), Issue(st, "new", "auth", FALSE, FALSE, FALSE, 300))}
  ELSE {Out(Rep(200, TRUE), Issue([st EXCEPT !.uid = "new", !.lvl = "auth"], "new", "auth", TRUE, FALSE, m.sch = "basicR", 200))}

UpdateUser(st, m, as, recU) ==      \* recU = user from temporary authentication, "" = none
  IF st.uid = "" /\ recU = "" THEN Err(403, st)
  ELSE IF as.u # "" /\ recU # "" THEN Err(400, st)
  ELSE LET userId == IF recU # "" THEN recU ELSE as.u IN
    IF m.usr \in {"other", "bad"} /\ st.lvl # "root" THEN Err(403, st)
    ELSE IF m.usr = "bad" THEN Err(400, st)
    ELSE IF m.st = "T" /\ st.lvl # "root" THEN Err(403, st)
    ELSE IF m.sch = "basic" THEN Err(200, st)
    ELSE IF m.st = "T" THEN Err(304, st)
    ELSE Err(400, st)

Acc(st, m, as) ==
  IF m.usr = "new" THEN CreateUser(st, m, as)
  ELSE IF m.tmp = "none" THEN UpdateUser(st, m, as, "")
  ELSE IF st.uid # "" THEN Err(409, st)                            \* temporary auth while already authenticated
  ELSE CASE m.tmp = "unknown" -> IF DEV_AccUnknownTmpNoReturn THEN {OutCrash(Rep(401, TRUE), st)} ELSE Err(401, st)
         [] m.tmp = "tokR"    -> UpdateUser(st, m, as, "alice")
         [] OTHER             -> Err(401, st)                      \* wrong token signature / wrong code

\* ------------------------------------------------------------------ expandTopicName (session.go:1290-1325)
P2PName(u) == CASE u = "alice" -> "p2p:alice,carol" [] u = "root" -> "p2p:carol,root" [] OTHER -> "p2p:carol,new"
Route(as, t) ==
  CASE t = "empty" -> [ok |-> FALSE, r |-> "", code |-> 400]
    [] t = "me"    -> [ok |-> TRUE, r |-> "me:" \o as.u, code |-> 0]
    [] t = "fnd"   -> [ok |-> TRUE, r |-> "fnd:" \o as.u, code |-> 0]
    [] t = "nousr" -> [ok |-> FALSE, r |-> "", code |-> 400]
    [] t = "usr"   -> IF as.u = "carol" THEN [ok |-> FALSE, r |-> "", code |-> 403]     \* p2p with oneself
                      ELSE [ok |-> TRUE, r |-> P2PName(as.u), code |-> 0]
    [] t = "grp"   -> [ok |-> TRUE, r |-> "g1", code |-> 0]
    [] t = "new"   -> [ok |-> TRUE, r |-> "newgrp", code |-> 0]
    [] OTHER       -> [ok |-> TRUE, r |-> t, code |-> 0]          \* nogrp, sys, bad, bad3, bad6: routed by their own name

\* names on which types.GetTopicCat panics: shorter than 3 bytes or no known prefix ("zz", "zzzzzz", "new...")
BadCat(t) == t \in {"bad", "bad6", "new"}
Joinable(r) == r = "g1" \/ r = "newgrp" \/ \E p \in {"me:alice", "me:root", "me:new", "me:carol", "fnd:alice", "fnd:root", "fnd:new", "fnd:carol",
                                                     "p2p:alice,carol", "p2p:carol,root", "p2p:carol,new"} : r = p

\* ------------------------------------------------------------------ subscribe (session.go:616-647 + hub/topic)
Sub(st, m, as) ==
  LET rt == Route(as, m.t) IN
  IF m.t # "new" /\ ~rt.ok THEN Err(rt.code, st)
  ELSE IF m.t # "new" /\ rt.r \in AttTopics(st) THEN Err(304, st)            \* one attachment per topic and session
  ELSE IF Joinable(rt.r) THEN {Out(Rep(200, TRUE), [st EXCEPT !.att = @ \cup {[t |-> rt.r, u |-> as.u]}])}
  ELSE IF rt.r = "sys" THEN IF as.l = "root" THEN {Out(Rep(200, TRUE), [st EXCEPT !.att = @ \cup {[t |-> "sys", u |-> as.u]}])}
                            ELSE Err(403, st)
  ELSE Err(404, st)                                                         \* no such topic / ill-formed name

\* ------------------------------------------------------------------ leave (session.go:650-683 + topic.handleLeaveRequest)
Detach(st, r) == [st EXCEPT !.att = {a \in @ : a.t # r}]
Leave(st, m, as) ==
  LET rt == Route(as, m.t) IN
  IF ~rt.ok THEN Err(rt.code, st)
  ELSE IF rt.r \in AttTopics(st) THEN
    IF m.t \in {"me", "fnd"} /\ m.w = "unsub" THEN Err(403, st)
    ELSE IF AttAs(st, rt.r).u = as.u THEN
      IF m.w = "unsub" /\ rt.r = "newgrp" THEN Err(403, st)                  \* the owner cannot unsubscribe
      ELSE {Out(Rep(200, TRUE), Detach(st, rt.r))}
    ELSE IF m.w = "unsub" THEN {Out(Rep(3, TRUE), st)}
    ELSE IF DEV_LeaveOboSilent THEN {Out(Rep(0, FALSE), st)} ELSE {Out(Rep(3, TRUE), st)}
  ELSE IF m.w = "unsub" THEN Err(409, st)
  ELSE Err(304, st)                                                          \* InfoNotJoined

\* ------------------------------------------------------------------ publish (session.go:686-731 + topic)
\* The "sender" header: set to the session's user iff acting for another user, otherwise REMOVED (never the client's value).
Pub(st, m, as) ==
  LET rt == Route(as, m.t) IN
  IF ~rt.ok THEN Err(rt.code, st)
  ELSE IF rt.r \in AttTopics(st) THEN
    IF AttAs(st, rt.r).u # as.u THEN {Out(Rep(3, TRUE), st)}
    ELSE IF rt.r = "g1" THEN {OutDlv(Rep(202, TRUE), st, [from |-> as.u, sender |-> IF as.u # st.uid THEN st.uid ELSE "-"])}
    ELSE IF rt.r = "newgrp" \/ rt.r = P2PName(as.u) THEN {Out(Rep(202, TRUE), st)}
    ELSE {Out(Rep(1, TRUE), st)}                                             \* me, fnd, sys: decided by the topic
  ELSE IF rt.r = "sys" THEN {Out(Rep(202, TRUE), st)}
  ELSE Err(409, st)                                                          \* must attach first

\* ------------------------------------------------------------------ get / set / del (session.go:1094-1215)
Get(st, m, as) ==
  LET rt == Route(as, m.t) IN
  IF ~rt.ok THEN Err(rt.code, st)
  ELSE IF m.w = "bad" THEN Err(400, st)
  ELSE IF rt.r \in AttTopics(st) THEN {Out(Rep(1, TRUE), st)}
  ELSE IF m.w \in {"desc", "sub"} THEN {Out(Rep(1, TRUE), st)}               \* served offline by the hub
  ELSE Err(403, st)

Set(st, m, as) ==
  LET rt == Route(as, m.t) IN
  IF ~rt.ok THEN Err(rt.code, st)
  ELSE IF m.w = "none" THEN Err(400, st)
  ELSE IF rt.r \in AttTopics(st) THEN {Out(Rep(1, TRUE), st)}
  ELSE IF m.w = "tags" THEN Err(403, st)
  ELSE {Out(Rep(1, TRUE), st)}

Del(st, m, as) ==
  IF m.w = "user" THEN {Out(Rep(3, TRUE), st)}                               \* replyDelUser for a user that does not exist
  ELSE LET rt == Route(as, m.t) IN
  IF ~rt.ok THEN Err(rt.code, st)
  ELSE IF m.w = "bad" THEN Err(400, st)
  ELSE IF rt.r \in AttTopics(st) /\ m.w # "topic" THEN {Out(Rep(1, TRUE), st)}
  ELSE IF m.w = "topic" THEN
    IF DEV_DelTopicBadNamePanics /\ BadCat(m.t) THEN {OutCrash(Rep(0, FALSE), st)}
    ELSE IF rt.r \in AttTopics(st) THEN {Out(Rep(2, TRUE), Detach(st, rt.r)), Out(Rep(3, TRUE), st)}
    ELSE {Out(Rep(1, TRUE), st)}
  ELSE Err(409, st)

\* ------------------------------------------------------------------ note (session.go:1218-1288): never an error reply WITH an id
Note(st, m, as) ==
  IF st.ver = "0" \/ as.u = "" THEN {Out(Rep(0, FALSE), st)}
  ELSE LET rt == Route(as, m.t) IN
  IF ~rt.ok THEN {Out(Rep(0, FALSE), st)}
  ELSE IF m.w = "bad" THEN {Out(Rep(0, FALSE), st)}
  ELSE IF m.w = "call" /\ DEV_NoteCallBadTopicPanics /\ BadCat(m.t) THEN {OutCrash(Rep(0, FALSE), st)}
  ELSE IF m.w = "call" /\ m.t # "usr" THEN {Out(Rep(0, FALSE), st)}          \* calls only on p2p topics
  ELSE IF rt.r \in AttTopics(st) THEN {Out(Rep(0, FALSE), st)}
  ELSE IF m.w \in {"recv", "call"} THEN {Out(Rep(0, FALSE), st)}             \* forwarded through the hub, never answered
  ELSE {Out(Rep(409, FALSE), st)}                                            \* as built: ErrAttachFirst without an id

\* ------------------------------------------------------------------ dispatch (session.go:465-614)
Dispatch(st, m) ==
  LET as == Resolve(st, m) IN
  IF m.k = "conn" THEN {Out(Rep(201, TRUE), [InitSt EXCEPT !.ver = "A", !.tok = st.tok, !.rst = st.rst])}
  ELSE IF ~as.ok THEN {Out(Rep(as.code, FALSE), st)}
  ELSE IF m.k = "hi" THEN Hello(st, m)
  ELSE IF m.k = "note" THEN Note(st, m, as)
  ELSE IF st.ver = "0" THEN Err(409, st)                                     \* checkVers: {hi} is missing
  ELSE IF m.k = "login" THEN Login(st, m)
  ELSE IF m.k = "acc" THEN Acc(st, m, as)
  ELSE IF as.u = "" THEN Err(401, st)                                        \* checkUser: authentication required
  ELSE CASE m.k = "sub"   -> Sub(st, m, as)
         [] m.k = "leave" -> Leave(st, m, as)
         [] m.k = "pub"   -> Pub(st, m, as)
         [] m.k = "get"   -> Get(st, m, as)
         [] m.k = "set"   -> Set(st, m, as)
         [] m.k = "del"   -> Del(st, m, as)

\* ------------------------------------------------------------------ C13 input classification (what the property demands of the answer)
\* "err"   : malformed / unauthorised / out of sequence / ill-addressed: some reply, no 2xx code
\* "reply" : some reply
\* "none"  : nothing demanded (notes)
Demand(st, m) ==
  IF m.k = "note" THEN "none"
  ELSE IF \A o \in Dispatch(st, m) : o.rep.code \notin {0, 1, 2} /\ (o.rep.code = 3 \/ o.rep.code >= 300) THEN "err"
  ELSE "reply"
\* the reply is produced by the request's handler (so it must echo the id) unless it is produced before the message kind is looked at
HandlerStage(st, m) == Resolve(st, m).ok /\ m.k \notin {"note", "conn"}

\* ------------------------------------------------------------------ the C11 clauses as predicates over ONE observed step
\* pre / post: [ver, uid, lvl, att] with att = SET of abstract topic names;  codes: set of reply codes received ({} = silence);
\* dlv: set of [from, sender] delivered to the reader of g1.  Used on model transitions (U1) and on real observations (binding).
Proj(st) == [ver |-> st.ver, uid |-> st.uid, lvl |-> st.lvl, att |-> AttTopics(st)]
Refused(m, codes) == IF m.k = "note" THEN \A c \in codes : c >= 400 ELSE codes # {} /\ \A c \in codes : c >= 400
\* ptk = [code, u, l]: the reply (300 | 200, 0 = none) with which the client's previous token was handed out, and to whom
\*       r = the token is RESTRICTED by its history: handed out in reply to a login that presented a no-login token (directly or
\*       through any chain of re-issues), i.e. a restricted token stays restricted however often the server re-issues it
NoPtk == [code |-> 0, u |-> "", l |-> "", r |-> FALSE]
PtkOf(tok) == [code |-> tok.code, u |-> tok.u, l |-> tok.l, r |-> tok.nologin]
FailingLogin(m, ptk) == m.k = "login" /\ (m.sch \in {"unknown", "reset"}
                     \/ m.sec \in {"wrong", "expired", "suspended", "deleted", "nologin", "malformed", "nouser"}
                     \/ (m.sec = "needscred" /\ Validators)
                     \/ (m.sec = "prev" /\ (ptk.code # 200 \/ ptk.r)))   \* no token, one handed out with 'validate credentials',
                                                                     \* or the re-issue of a restricted (no-login) token
Grants(m, ptk) == IF m.k = "login" /\ m.sec = "prev" THEN (IF ptk.code = 200 /\ ~ptk.r THEN <<ptk.u, ptk.l>> ELSE <<"", "">>)
             ELSE IF m.k = "login" /\ m.sec = "right" THEN <<"alice", "auth">>
             ELSE IF m.k = "login" /\ m.sec = "rightroot" THEN <<"root", "root">>
             ELSE IF m.k = "acc" /\ m.usr = "new" /\ m.lg = "T" THEN <<"new", "auth">> ELSE <<"", "">>
OwnTopics(u, l) == {"me:" \o u, "fnd:" \o u, "g1", "newgrp", P2PName(u)} \cup (IF l = "root" THEN {"sys"} ELSE {})

Violated(pre, m, codes, post, dlv, ptk) ==
  IF m.k = "conn" THEN {} ELSE     \* a new connection is a new session: the clauses speak about one session
  (IF pre.ver = "0" /\ m.k # "hi" /\ ~(Refused(m, codes) /\ post = pre /\ dlv = {}) THEN {"PreHiRefused"} ELSE {})
  \cup (IF pre.uid = "" /\ m.k \notin {"hi", "acc", "login"} /\ ~(Refused(m, codes) /\ post = pre /\ dlv = {})
        THEN {"PreLoginRefused"} ELSE {})
  \cup (IF pre.uid # "" /\ ~(post.uid = pre.uid /\ post.lvl = pre.lvl
                             /\ ((m.k = "login" /\ m.sch # "reset") \/ (m.k = "acc" /\ m.lg = "T") => \A c \in codes : c >= 300))
        THEN {"LoginAtMostOnce"} ELSE {})
  \cup (IF pre.uid = "" /\ ~( \/ (post.uid = "" /\ post.lvl = "")
                             \/ (<<post.uid, post.lvl>> = Grants(m, ptk) /\ ~FailingLogin(m, ptk)) )
        THEN {"FailedLoginGrantsNothing"} ELSE {})
  \cup (IF FailingLogin(m, ptk) /\ ~(post.uid = pre.uid /\ post.lvl = pre.lvl) THEN {"FailedLoginGrantsNothing"} ELSE {})
  \cup (IF m.o \in {"none", "lvl"} /\ ~( /\ \A d \in dlv : d.from = pre.uid
                                        /\ (post.att \ pre.att) \subseteq OwnTopics(pre.uid, pre.lvl)
                                        /\ (m.k = "acc" /\ m.st = "T" /\ pre.lvl # "root" => \A c \in codes : c >= 300) )
        THEN {"ActsAsLoggedInUser"} ELSE {})
  \cup (IF m.o \in {"valid", "validroot", "bad"} /\ pre.lvl # "root" /\ ~(Refused(m, codes) /\ post = pre /\ dlv = {})
        THEN {"OboOnlyRoot"} ELSE {})
  \cup (IF \E d \in dlv : ~( /\ d.from \in ({pre.uid} \cup (IF pre.lvl = "root" /\ m.o \in {"valid", "validroot"} THEN {"carol"} ELSE {}))
                            /\ d.sender = (IF d.from = pre.uid THEN "-" ELSE pre.uid) )
        THEN {"AuthorNotForgeable"} ELSE {})
  \cup (IF ~(pre.ver # "0" => post.ver = pre.ver) \/ ~(pre.ver = "0" /\ post.ver # "0" => m.k = "hi" /\ post.ver = m.v)
        THEN {"VersionImmutable"} ELSE {})

\* codes a model outcome stands for, as a representative set (for U1: the clauses are evaluated on the model's own transitions)
ModelCodeSets(rep) == CASE rep.code = 0 -> {{}} [] rep.code = 1 -> {{200}, {404}} [] rep.code = 2 -> {{200}} [] rep.code = 3 -> {{404}}
                        [] OTHER -> {{rep.code}}
=============================================================================
