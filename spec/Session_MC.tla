----------------------------- MODULE Session_MC -----------------------------
(***************************************************************************)
(* Model-checking / generation harness for Session.tla.                    *)
(*  - U1: every transition of the model satisfies the C11 clauses          *)
(*    (`viol` = clauses false on the transition just taken; INVARIANT      *)
(*    NoViolation).  With VIEW StView the whole reachable state space is   *)
(*    explored (sequences of every length); without it, every sequence of  *)
(*    at most MaxLen messages over `Alphabet` is a distinct state.         *)
(*  - Generation: INVARIANT Emit prints the message-index history of every *)
(*    distinct state (all sequences <= MaxLen without VIEW; one shortest   *)
(*    witness per reachable session state with VIEW); EmitFull prints      *)
(*    complete random walks in -simulate mode.                             *)
(***************************************************************************)
EXTENDS Session, SequencesExt

CONSTANTS Alphabet,   \* sequence of abstract messages (subset of AllMsgs), addressed by index
          MaxLen,     \* bound on the number of messages
          EmitTag     \* "" = do not print; otherwise the tag printed in front of each history

VARIABLES st, hist, viol
vars == <<st, hist, viol>>

ASSUME \A i \in DOMAIN Alphabet : Alphabet[i] \in AllMsgs

Init == st = InitSt /\ hist = <<>> /\ viol = {}

Next ==
  /\ ~st.crashed
  /\ Len(hist) < MaxLen
  /\ \E i \in DOMAIN Alphabet : \E o \in Dispatch(st, Alphabet[i]) : \E cs \in ModelCodeSets(o.rep) :
       /\ st' = o.st
       /\ hist' = Append(hist, i)
       /\ viol' = Violated(Proj(st), Alphabet[i], cs, Proj(o.st), o.dlv)

Spec == Init /\ [][Next]_vars

StView == <<st, viol>>
NoViolation == viol = {}
Emit == EmitTag = "" \/ PrintT(<<EmitTag, hist>>)
EmitFull == EmitTag = "" \/ Len(hist) < MaxLen \/ PrintT(<<EmitTag, hist>>)

AlphabetAll == SetToSeq(AllMsgs)
\* sanity of the model itself: the state stays within its type
TypeOK == /\ st.ver \in {"0", "A", "B"} /\ st.uid \in {"", "alice", "root", "new"} /\ st.lvl \in {"", "auth", "root"}
          /\ (st.uid = "") = (st.lvl = "")
          /\ \A a \in st.att : a.u \in {"alice", "root", "new", "carol"}
=============================================================================
