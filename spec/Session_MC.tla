----------------------------- MODULE Session_MC -----------------------------
(***************************************************************************)
(* Model-checking / generation harness for Session.tla.                    *)
(*  - U1: every transition of the model satisfies the C11 clauses          *)
(*    (`viol` = clauses false on the transition just taken; INVARIANT      *)
(*    NoViolation).  With VIEW StView the whole reachable state space is   *)
(*    explored (sequences of every length); without it, every sequence of  *)
(*    at most MaxLen messages over `Alphabet` is a distinct state.         *)
(*  - Generation: INVARIANT Emit prints the message-index history of every *)
(*    distinct state (all sequences <= MaxLen without VIEW; one shortest   *)
(*    witness per reachable session state with VIEW); EmitFull prints      *)
(*    complete random walks in -simulate mode.                             *)
(***************************************************************************)
EXTENDS Session, SequencesExt

CONSTANTS AlphaName,  \* which alphabet: "all" | "q" (C11 quick) | "t" (C11 thorough)
          MaxLen,     \* bound on the number of messages
          EmitTag     \* "" = do not print; otherwise the tag printed in front of each history

\* The C11 alphabets: every message kind, every clause of the property has its trigger (wrong-state requests, failing
\* logins of every kind, second logins, obo from non-root and root, forged sender, version change).
AlphaQ ==
  {MHi("A"), MHi("B"), MHi("bad"), MHi("old")}
  \cup {MLogin("basic", s) : s \in {"right", "wrong", "needscred"}}
  \cup {MLogin("token", s) : s \in {"right", "rightroot", "expired", "deleted", "nologin", "prev"}}
  \cup {MLogin("reset", "known"), MLogin("unknown", "x"), MConn}
  \cup {MAcc("new", "T", "basic", "none", "F", "none"), MAcc("new", "T", "basicR", "none", "F", "none"),
        MAcc("self", "F", "basic", "none", "F", "none"), MAcc("self", "F", "basic", "tokR", "F", "none")}
  \cup {MTop("sub", "me", "none", "none"), MTop("sub", "grp", "none", "none"), MTop("sub", "grp", "none", "valid"),
        MTop("pub", "grp", "forged", "none"), MTop("pub", "grp", "forged", "valid"),
        MTop("get", "me", "desc", "none"), MTop("get", "me", "desc", "valid"),
        MTop("leave", "grp", "none", "none"), MTop("note", "grp", "read", "none")}
AlphaT == AlphaQ
  \cup {MLogin("basic", s) : s \in {"rightroot", "expired", "malformed"}}
  \cup {MLogin("token", s) : s \in {"wrong", "needscred"}}
  \cup {MAcc("new", "F", "basic", "none", "F", "none"), MAcc("other", "F", "basic", "none", "F", "none"),
        MAcc("self", "F", "basic", "unknown", "F", "none")}
  \cup {MTop("sub", "usr", "none", "none"), MTop("sub", "sys", "none", "none"), MTop("leave", "grp", "none", "valid"),
        MTop("del", "grp", "topic", "none"), MTop("set", "me", "desc", "lvl")}
\* "all" without token tracking: the universe minus the two messages that need it
AlphaSet == CASE AlphaName = "q" -> AlphaQ [] AlphaName = "t" -> AlphaT
              [] OTHER -> IF TrackTok THEN AllMsgs ELSE AllMsgs \ {MConn, MLogin("token", "prev")}
\* Messages are addressed by index in the printed histories.  TLC re-evaluates a definition that depends on a declared
\* CONSTANT at every use; the sequence is therefore computed once (an ASSUME sets the register for every worker).
ASSUME TLCSet(7, SetToSeq(AlphaSet))
Alphabet == TLCGet(7)

VARIABLES st, hist, viol
vars == <<st, hist, viol>>

ASSUME \A i \in DOMAIN Alphabet : Alphabet[i] \in AllMsgs

Init == st = InitSt /\ hist = <<>> /\ viol = {}

Next ==
  /\ ~st.crashed
  /\ Len(hist) < MaxLen
  /\ \E i \in DOMAIN Alphabet : \E o \in Dispatch(st, Alphabet[i]) : \E cs \in ModelCodeSets(o.rep) :
       /\ st' = o.st
       /\ hist' = Append(hist, i)
       /\ viol' = Violated(Proj(st), Alphabet[i], cs, Proj(o.st), o.dlv, PtkOf(st.tok))

Spec == Init /\ [][Next]_vars

StView == <<st, viol>>
NoViolation == viol = {}
Emit == EmitTag = "" \/ PrintT(<<EmitTag, hist>>)
EmitFull == EmitTag = "" \/ Len(hist) < MaxLen \/ PrintT(<<EmitTag, hist>>)

\* the alphabet in index order, printed once so that the recorder can resolve the indices
ASSUME EmitTag = "" \/ PrintT(<<"ALPHABET", Alphabet>>)
ASSUME EmitTag # "WIT" \/ PrintT(<<"UNIVERSE", SetToSeq(AllMsgs)>>)
\* sanity of the model itself: the state stays within its type
TypeOK == /\ st.ver \in {"0", "A", "B"} /\ st.uid \in {"", "alice", "root", "new"} /\ st.lvl \in {"", "auth", "root"}
          /\ (st.uid = "") = (st.lvl = "")
          /\ \A a \in st.att : a.u \in {"alice", "root", "new", "carol"}
=============================================================================
