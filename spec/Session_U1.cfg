CONSTANTS
  Validators = TRUE
  DEV_AccUnknownTmpNoReturn = FALSE
  DEV_NoteCallBadTopicPanics = FALSE
  DEV_DelTopicBadNamePanics = FALSE
  TrackTok = TRUE
  DEV_LeaveOboSilent = FALSE
  AlphaName = "all"
  MaxLen = 1000
  EmitTag = ""
INIT Init
NEXT Next
VIEW StView
INVARIANT NoViolation
INVARIANT TypeOK
CHECK_DEADLOCK FALSE
