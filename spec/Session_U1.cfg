CONSTANTS
  Validators = TRUE
  DEV_AccUnknownTmpNoReturn = FALSE
  DEV_NoteCallBadTopicPanics = FALSE
  DEV_DelTopicBadNamePanics = FALSE
  DEV_LeaveOboSilent = FALSE
  Alphabet <- AlphabetAll
  MaxLen = 1000
  EmitTag = ""
INIT Init
NEXT Next
VIEW StView
INVARIANT NoViolation
INVARIANT TypeOK
CHECK_DEADLOCK FALSE
