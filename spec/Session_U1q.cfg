CONSTANTS
  Validators = TRUE
  DEV_AccUnknownTmpNoReturn = FALSE
  DEV_NoteCallBadTopicPanics = FALSE
  DEV_DelTopicBadNamePanics = FALSE
  TrackTok = TRUE
  DEV_LeaveOboSilent = FALSE
  AlphaName = "q"
  MaxLen = 3
  EmitTag = ""
INIT Init
NEXT Next
INVARIANT NoViolation
INVARIANT TypeOK
CHECK_DEADLOCK FALSE
