------------------------------ MODULE TopicCore ------------------------------
(***************************************************************************)
(* Store + live topic cache + sessions of a tinode server, for group       *)
(* topics (server/topic.go, hub.go, init_topic.go, session.go, store.go).  *)
(*                                                                         *)
(* The state is ONE record `S` whose shape is exactly the projection that  *)
(* the conformance harness records from the real server after every step   *)
(* (Proj in Trace_TopicCore.tla), so that a recorded step can be checked   *)
(* as  Step(pre, act) = post  without any translation layer:               *)
(*   S.topics[t] = [exists, seq, delId, owner, auth, anon]   store row     *)
(*   S.subs[t][u]= [st, want, given, read, recv, delId]      store row     *)
(*   S.msgs[t]   = <<[seq, from, delId, content], ...>>      store rows    *)
(*   S.cache[t]  = [loaded |-> FALSE]  or                                  *)
(*                 [loaded, last, del, owner, auth, anon, per, att]        *)
(*   S.sess[s]   = [live, subs]                                            *)
(* Access modes inside S are canonical letter tuples (<<"J","R">>), which  *)
(* is what the harness logs; T() and M() convert to and from sets.         *)
(*                                                                         *)
(* Each client request is one atomic step of the topic actor (the harness  *)
(* runs the real server to quiescence after each request), written as an   *)
(* operator  XxxStep(S, a)  returning [st |-> S', out |-> reply/fan-out].  *)
(* Every request has an outcome (accept or a specific rejection): the      *)
(* operators are total, like the code.  DEV_* constants name the places    *)
(* where the code as built departs from the listed properties.             *)
(***************************************************************************)
EXTENDS AccessMode, Ranges, Integers, SequencesExt

CONSTANTS Users,        \* abstract user names, e.g. {"u1","u2","u3"}
          Sessions,     \* abstract session names
          SessUser,     \* [Sessions -> Users]
          Topics,       \* all projected topic names: group topics and p2p topics ("p12" = the topic of u1 and u2)
          RootSessions, \* sessions logged in at root level: they may act on behalf of other users; their steps are not modelled
          P2PUsers,     \* [Topics -> set of the two participants] for p2p topics ({} for group topics)
          GrpTopics,    \* the group topics among them: only these are MODELLED by Step (p2p steps are judged by the monitors only)
          MaxSubs,      \* configured subscriber limit
          DEV_NewSubWantO,          \* a first-time subscriber may request O in want
          DEV_UnsetWantTakesGiven,  \* un-self-ban copies given (incl. O) into want
          DEV_BannedUpdateApplied,
          \* ^ a banned user's {sub}/{set} stores the new want, then is answered 403
          DEV_ChanReaderMarksNotCached, \* channel readers' marks are not kept in the live topic: stale notes are applied
          DEV_ReadNoteRecvNotStored, \* {note read} past the recv mark raises recv in the live topic but stores ReadSeqId only
          DEV_OfflineSetSubBypassesCache, \* a detached user's {set sub} is written to the store behind a loaded topic's back
          DEV_AdminSelfRaise        \* placeholder for seeded variants; FALSE = as pinned

IsP2P(t) == t \notin GrpTopics
T(m) == SelectSeq(Letters, LAMBDA c : c \in m)
M(tp) == ToSet(tp)
Eff(r) == M(r.want) \cap M(r.given)

NoSub    == [st |-> "none", want |-> <<>>, given |-> <<>>, read |-> 0, recv |-> 0, delId |-> 0]
NoTopic  == [exists |-> FALSE, ischan |-> FALSE, seq |-> 0, delId |-> 0, owner |-> "", auth |-> <<>>, anon |-> <<>>, public |-> "null"]
Unloaded == [loaded |-> FALSE]
NoPer    == [in |-> FALSE, want |-> <<>>, given |-> <<>>, read |-> 0, recv |-> 0, delId |-> 0,
             online |-> 0, deleted |-> FALSE, ischan |-> FALSE]

InitState ==
  [topics |-> [t \in Topics |-> NoTopic],
   subs   |-> [t \in Topics |-> [u \in Users |-> NoSub]],
   csubs  |-> [t \in Topics |-> [u \in Users |-> NoSub]],      \* channel readers' rows (stored under the chnXXX spelling)
   msgs   |-> [t \in Topics |-> <<>>],
   dlog   |-> [t \in Topics |-> <<>>],
   cache  |-> [t \in Topics |-> Unloaded],
   sess   |-> [s \in Sessions |-> [live |-> TRUE, subs |-> <<>>]]]

PublicText(x) == "{\"fn\":\"" \o x \o "\"}"      \* the harness sets public = {"fn": <name>}
GrpDefaultAuth == CPublic      \* getDefaultAccess(grp, auth)
GrpDefaultAnon == None

\* ---------------------------------------------------------------- small helpers
\* TLC cannot order strings; sessions and topics are ordered by their position in these constant sequences
CONSTANTS SessOrder, TopicOrder
Pos(seq, x) == CHOOSE i \in DOMAIN seq : seq[i] = x
AttTuple(S) == SetToSortSeq(S, LAMBDA a, b : Pos(SessOrder, a.s) < Pos(SessOrder, b.s))
SubsTuple(S) == SetToSortSeq(S, LAMBDA a, b : Pos(TopicOrder, a) < Pos(TopicOrder, b))

AttOf(c) == IF c.loaded THEN M(c.att) ELSE {}
AttSess(c) == {x.s : x \in AttOf(c)}

Reply(S, code) == [st |-> S, out |-> [code |-> code, dataTo |-> {}, pushTo |-> {}, seq |-> 0]]

\* owner as loadSubscribers finds it: the last subscriber (in user-id order = account creation order = Users order)
\* whose want /\ given has O.
CONSTANT UserOrder
LoadedOwner(S, t) ==
  LET owners == {u \in Users : S.subs[t][u].st = "live" /\ "O" \in Eff(S.subs[t][u])} IN
  IF owners = {} THEN "" ELSE CHOOSE u \in owners : \A v \in owners : Pos(UserOrder, v) <= Pos(UserOrder, u)

\* initTopicGrp + loadSubscribers
LoadedCache(S, t) ==
  [loaded |-> TRUE, ischan |-> S.topics[t].ischan, last |-> S.topics[t].seq, del |-> S.topics[t].delId, owner |-> LoadedOwner(S, t),
   auth |-> S.topics[t].auth, anon |-> S.topics[t].anon,
   per |-> [u \in Users |-> IF S.subs[t][u].st = "live"
                              THEN [NoPer EXCEPT !.in = TRUE, !.want = S.subs[t][u].want, !.given = S.subs[t][u].given,
                                                 !.read = S.subs[t][u].read, !.recv = S.subs[t][u].recv, !.delId = S.subs[t][u].delId]
                              ELSE NoPer],
   att |-> <<>>]

Load(S, t) == IF S.cache[t].loaded THEN S ELSE [S EXCEPT !.cache[t] = LoadedCache(S, t)]

SubsCount(c) == Cardinality({u \in Users : c.per[u].in})

\* remove session s from the topic (handleLeaveRequest / evict): att, session's subs list, online counter
Detach(S, t, s) ==
  LET c == S.cache[t]
      u == SessUser[s]
      isAtt == s \in AttSess(c) IN
  IF ~isAtt THEN S ELSE
  LET S1 == [S EXCEPT !.cache[t].att = AttTuple({x \in M(c.att) : x.s # s}),
                      !.cache[t].per[u].online = IF c.per[u].in THEN @ - 1 ELSE @,
                      !.sess[s].subs = SubsTuple(M(@) \ {t})]
  IN \* channel readers are not kept in the live topic once their last session has left
     IF c.per[u].in /\ c.per[u].ischan /\ S1.cache[t].per[u].online = 0 THEN [S1 EXCEPT !.cache[t].per[u] = NoPer] ELSE S1

\* evictUser(uid, unsub): detach all sessions of u; unsub => forget the user, else online := 0
Evict(S, t, u, unsub) ==
  LET c == S.cache[t]
      mine == {x \in M(c.att) : x.u = u} IN
  [S EXCEPT !.cache[t].att = AttTuple(M(c.att) \ mine),
            !.cache[t].per[u] = IF unsub THEN (IF IsP2P(t) THEN (IF c.per[u].in THEN [@ EXCEPT !.online = 0, !.deleted = TRUE] ELSE @) ELSE NoPer)
                                ELSE IF c.per[u].in /\ c.per[u].ischan THEN NoPer
                                ELSE IF c.per[u].in THEN [@ EXCEPT !.online = 0] ELSE @,
            !.sess = [s \in Sessions |-> IF \E x \in mine : x.s = s
                                          THEN [S.sess[s] EXCEPT !.subs = SubsTuple(M(@) \ {t})]
                                          ELSE S.sess[s]]]

\* hard delete of a topic: rows, messages, log, live topic and every session's attachment
DeleteTopic(S, t) ==
  [S EXCEPT !.topics[t] = NoTopic,
            !.subs[t] = [u \in Users |-> NoSub],
            !.csubs[t] = [u \in Users |-> NoSub],
            !.msgs[t] = <<>>,
            !.dlog[t] = <<>>,
            !.cache[t] = Unloaded,
            !.sess = [x \in Sessions |-> [S.sess[x] EXCEPT !.subs = SubsTuple(M(@) \ {t})]]]

AttachC(S, t, s, ch) ==
  LET u == SessUser[s] IN
  [S EXCEPT !.cache[t].att = AttTuple(M(@) \cup {[s |-> s, u |-> u, chan |-> ch]}),
            !.cache[t].per[u].online = @ + 1,
            !.sess[s].subs = SubsTuple(M(@) \cup {t})]
Attach(S, t, s) ==
  LET u == SessUser[s] IN
  [S EXCEPT !.cache[t].att = AttTuple(M(@) \cup {[s |-> s, u |-> u, chan |-> FALSE]}),
            !.cache[t].per[u].online = @ + 1,
            !.sess[s].subs = SubsTuple(M(@) \cup {t})]

\* adapter SubsDelete: soft-deletes the row and drops the user's own soft-deletion log for the topic
UnsubRow(S, t, u) ==
  [S EXCEPT !.subs[t][u].st = "del",
            !.dlog[t] = SelectSeq(@, LAMBDA r : r["for"] # u)]

\* ---------------------------------------------------------------- NewGrp
\* {sub topic="new..."}: initTopicNewGrp + store.Topics.Create + first registerSession
NewGrpStep(S, a) ==
  LET t == a.t  s == a.s  u == SessUser[s]
      pm == IF a.mode = <<"-">> THEN [ok |-> TRUE, m |-> Unset] ELSE Parse(a.mode)
      want == IF a.mode = <<"-">> \/ ~pm.ok \/ pm.m = Unset THEN CFull ELSE Mask(pm.m) \cup {"J", "O"}
      row == [st |-> "live", want |-> T(want), given |-> T(CFull), read |-> 0, recv |-> 0, delId |-> 0]
      defAuth == IF a.chan THEN CChnWriter ELSE GrpDefaultAuth          \* getDefaultAccess(grp, auth, isChan)
      S1 == [S EXCEPT !.topics[t] = [exists |-> TRUE, ischan |-> a.chan, seq |-> 0, delId |-> 0, owner |-> u,
                                    auth |-> T(defAuth), anon |-> T(GrpDefaultAnon), public |-> PublicText(t)],
                      !.subs[t][u] = row,
                      !.cache[t] = [loaded |-> TRUE, ischan |-> a.chan, last |-> 0, del |-> 0, owner |-> u,
                                    auth |-> T(defAuth), anon |-> T(GrpDefaultAnon),
                                    per |-> [v \in Users |-> IF v = u THEN [NoPer EXCEPT !.in = TRUE, !.want = T(want), !.given = T(CFull)]
                                                              ELSE NoPer],
                                    att |-> <<>>]]
  IN IF S.topics[t].exists THEN Reply(S, 0)     \* generator never does this
     ELSE Reply(Attach(S1, t, s), 200)

\* ---------------------------------------------------------------- thisUserSub
\* returns [st, code] ; code 0 = success (caller decides 200/attach), otherwise the error code already replied
AccessFor(c, u) == M(c.auth)     \* all modelled users are authenticated (LevelAuth)

ThisUserSub(S, t, u, modeTxt) ==
  LET c == S.cache[t]
      pud == c.per[u]
      pm == IF modeTxt = <<"-">> THEN [ok |-> TRUE, m |-> Unset] ELSE Parse(modeTxt)
      mw == IF pm.m = Unset THEN Unset ELSE Mask(pm.m)
  IN
  IF ~pm.ok THEN [st |-> S, code |-> 400, chg |-> FALSE]
  ELSE IF ~pud.in THEN
    \* ---- new subscription
    IF SubsCount(c) >= MaxSubs THEN [st |-> S, code |-> 422, chg |-> FALSE]
    ELSE LET row == S.subs[t][u]
             given == IF row.st # "none" THEN M(row.given) ELSE AccessFor(c, u)
             want == IF mw = Unset THEN AccessFor(c, u) ELSE mw
         IN IF ~DEV_NewSubWantO /\ mw # Unset /\ "O" \in mw THEN [st |-> S, code |-> 403, chg |-> FALSE]
            ELSE IF "J" \notin given THEN [st |-> S, code |-> 403, chg |-> FALSE]
            ELSE LET newrow == IF row.st = "live" THEN row
                               ELSE [st |-> "live", want |-> T(want), given |-> T(given), read |-> 0, recv |-> 0, delId |-> 0]
                     S1 == [S EXCEPT !.subs[t][u] = newrow,
                                     !.cache[t].per[u] = [NoPer EXCEPT !.in = TRUE, !.want = T(want), !.given = T(given)]]
                 IN IF "J" \notin want THEN [st |-> Evict(S1, t, u, FALSE), code |-> 0, chg |-> TRUE]
                    ELSE [st |-> S1, code |-> 0, chg |-> TRUE]
  ELSE
    \* ---- existing subscription
    LET oldWant == M(pud.want)  oldGiven == M(pud.given)
        isOwner == c.owner = u
    IN
    IF mw # Unset /\ isOwner /\ ("O" \notin mw \/ "J" \notin mw) THEN [st |-> S, code |-> 403, chg |-> FALSE]
    ELSE IF mw # Unset /\ "O" \notin oldGiven /\ "O" \in mw THEN [st |-> S, code |-> 403, chg |-> FALSE]
    ELSE
    LET ownerChange == mw # Unset /\ "O" \in oldGiven /\ "O" \in mw /\ "O" \notin oldWant
        given1 == IF mw = Unset THEN oldGiven
                  ELSE IF "O" \in oldGiven THEN (IF "O" \in mw /\ ~(mw \subseteq oldGiven) THEN oldGiven \cup mw ELSE oldGiven)
                  ELSE IF IsAdmin(oldGiven) /\ IsAdmin(mw) THEN
                         (IF ~((mw \ {"D"}) \subseteq oldGiven) THEN oldGiven \cup (mw \ {"D"}) ELSE oldGiven)
                  ELSE oldGiven
        want1 == IF mw = Unset
                 THEN (IF "J" \notin oldWant
                       THEN (IF DEV_UnsetWantTakesGiven \/ isOwner THEN given1 ELSE given1 \ {"O"}) \cup AccessFor(c, u)
                       ELSE oldWant)
                 ELSE mw
        changed == want1 # oldWant \/ given1 # oldGiven
        \* the store is written only for the fields that differ from the CACHED values
        S1 == [S EXCEPT !.subs[t][u].want = IF want1 # oldWant THEN T(want1) ELSE @,
                        !.subs[t][u].given = IF given1 # oldGiven THEN T(given1) ELSE @,
                        !.cache[t].per[u].want = T(want1), !.cache[t].per[u].given = T(given1)]
        \* ownership transfer: old owner loses O in want and given, topic row and cache owner move
        old == c.owner
        S2 == IF ownerChange /\ old # "" /\ old # u
              \* both columns of the old owner's row are written from the LIVE topic's copy
              THEN [S1 EXCEPT !.subs[t][old].want = T(M(S1.cache[t].per[old].want) \ {"O"}),
                              !.subs[t][old].given = T(M(S1.cache[t].per[old].given) \ {"O"}),
                              !.cache[t].per[old].want = T(M(S1.cache[t].per[old].want) \ {"O"}),
                              !.cache[t].per[old].given = T(M(S1.cache[t].per[old].given) \ {"O"}),
                              !.topics[t].owner = u,
                              !.cache[t].owner = u]
              ELSE IF ownerChange THEN [S1 EXCEPT !.topics[t].owner = u, !.cache[t].owner = u]
              ELSE S1
    IN IF "J" \notin given1 /\ ~DEV_BannedUpdateApplied THEN [st |-> S, code |-> 403, chg |-> FALSE]
       ELSE IF "J" \notin want1 THEN [st |-> Evict(S2, t, u, FALSE), code |-> 0, chg |-> changed]
       ELSE IF "J" \notin given1 THEN [st |-> S2, code |-> 403, chg |-> changed]
       ELSE [st |-> S2, code |-> 0, chg |-> changed]

\* ---------------------------------------------------------------- p2p topics (initTopicP2P + the p2p branches of thisUserSub)
Other(t, u) == CHOOSE v \in P2PUsers[t] : v # u
P2PMask(m) == (m \cap CP2P) \cup {"A"}
LiveP2P(S, t) == {u \in P2PUsers[t] : S.subs[t][u].st = "live"}
PerFromRow(r) == [NoPer EXCEPT !.in = TRUE, !.want = r.want, !.given = r.given, !.read = r.read, !.recv = r.recv, !.delId = r.delId]
FreshRow(want, given) == [st |-> "live", want |-> T(want), given |-> T(given), read |-> 0, recv |-> 0, delId |-> 0]

\* load (or create) the p2p topic on behalf of requester u with the {sub}'s mode text; returns [st, code (0 = ok), newsub]
P2PLoad(S, t, u, modeTxt) ==
  LET live == LiveP2P(S, t)
      exists == S.topics[t].exists
      base == [loaded |-> TRUE, ischan |-> FALSE, last |-> S.topics[t].seq, del |-> S.topics[t].delId, owner |-> "", auth |-> <<>>, anon |-> <<>>,
               per |-> [v \in Users |-> NoPer], att |-> <<>>]
  IN
  IF exists /\ Cardinality(live) = 2 THEN
     [st |-> [S EXCEPT !.cache[t] = [base EXCEPT !.per = [v \in Users |-> IF v \in live THEN PerFromRow(S.subs[t][v]) ELSE NoPer]]],
      code |-> 0, newsub |-> FALSE]
  ELSE IF exists /\ live = {} THEN [st |-> S, code |-> 500, newsub |-> FALSE]
  ELSE IF u \notin P2PUsers[t] THEN [st |-> S, code |-> 404, newsub |-> FALSE]
  ELSE
     LET o == Other(t, u)
         make1 == ~exists \/ u \notin live
         make2 == ~exists \/ o \notin live
         pm == IF modeTxt = <<"-">> THEN [ok |-> TRUE, m |-> Unset] ELSE Parse(modeTxt)
         row2 == IF make2 THEN FreshRow(P2PMask(CAuth), P2PMask(CAuth)) ELSE S.subs[t][o]
         want1 == IF modeTxt = <<"-">> THEN M(row2.given)
                  ELSE (IF pm.ok /\ pm.m # Unset THEN P2PMask(Mask(pm.m)) ELSE P2PMask(M(row2.given))) \cup {"J"}
         row1 == IF make1 THEN FreshRow(want1, P2PMask(CAuth)) ELSE S.subs[t][u]
         S1 == [S EXCEPT !.topics[t] = IF exists THEN @ ELSE [NoTopic EXCEPT !.exists = TRUE],
                         !.subs[t][u] = row1, !.subs[t][o] = row2,
                         !.cache[t] = [base EXCEPT !.per = [v \in Users |-> IF v = u THEN PerFromRow(row1) ELSE IF v = o THEN PerFromRow(row2) ELSE NoPer]]]
     IN [st |-> S1, code |-> 0, newsub |-> make1]

\* thisUserSub on a loaded p2p topic
P2PThisUserSub(S, t, u, modeTxt) ==
  LET c == S.cache[t]
      pud == c.per[u]
      pm == IF modeTxt = <<"-">> THEN [ok |-> TRUE, m |-> Unset] ELSE Parse(modeTxt)
      mw == IF pm.m = Unset THEN Unset ELSE Mask(pm.m)
  IN
  IF ~pm.ok THEN [st |-> S, code |-> 400, chg |-> FALSE]
  ELSE IF ~pud.in \/ pud.deleted THEN
     \* third user, or a participant whose subscription was deleted while the topic stayed loaded
     LET want == P2PMask(IF mw = Unset THEN M(pud.want) ELSE mw)
         given == M(pud.given)
     IN IF "J" \notin given THEN [st |-> S, code |-> 403, chg |-> FALSE]
        ELSE LET S1 == [S EXCEPT !.subs[t][u] = FreshRow(want, given),
                                 !.cache[t].per[u] = [NoPer EXCEPT !.in = TRUE, !.want = T(want), !.given = T(given)]]
             IN IF "J" \notin want THEN [st |-> Evict(S1, t, u, FALSE), code |-> 0, chg |-> TRUE]
                ELSE [st |-> S1, code |-> 0, chg |-> TRUE]
  ELSE
     LET oldWant == M(pud.want)  oldGiven == M(pud.given) IN
     IF mw # Unset /\ "O" \in mw THEN [st |-> S, code |-> 403, chg |-> FALSE]      \* checked before the p2p mask
     ELSE LET want1 == IF mw = Unset THEN (IF "J" \notin oldWant THEN oldGiven \cup CP2P ELSE oldWant) ELSE P2PMask(mw)
              changed == want1 # oldWant
              banned == "J" \notin oldGiven
              S1 == [S EXCEPT !.subs[t][u].want = IF changed THEN T(want1) ELSE @,
                              !.cache[t].per[u].want = T(want1)]
          IN IF banned /\ ~DEV_BannedUpdateApplied THEN [st |-> S, code |-> 403, chg |-> FALSE]
             ELSE IF "J" \notin want1 THEN [st |-> Evict(S1, t, u, FALSE), code |-> 0, chg |-> changed]
             ELSE IF banned THEN [st |-> S1, code |-> 403, chg |-> changed]
             ELSE [st |-> S1, code |-> 0, chg |-> changed]

P2PSubStep(S, a) ==
  LET t == a.t  s == a.s  u == SessUser[s] IN
  IF t \in M(S.sess[s].subs) THEN Reply(S, 304)
  ELSE LET l == IF S.cache[t].loaded THEN [st |-> S, code |-> 0, newsub |-> FALSE] ELSE P2PLoad(S, t, u, a.mode) IN
       IF l.code # 0 THEN Reply(l.st, l.code)
       ELSE LET r == P2PThisUserSub(l.st, t, u, a.mode)
                pud == r.st.cache[t].per[u]
                isNew == l.newsub \/ ~l.st.cache[t].per[u].in \/ l.st.cache[t].per[u].deleted
                joined == r.code = 0 /\ pud.in /\ ((r.chg \/ isNew) => "J" \in Eff(pud))
            IN IF r.code # 0 THEN Reply(r.st, r.code)
               ELSE IF joined THEN Reply(Attach(r.st, t, s), 200)
               ELSE Reply(r.st, 200)

\* ---------------------------------------------------------------- {sub topic="chnXXX"}: a reader joins a channel-enabled group
ChanSubStep(S, a) ==
  LET t == a.t  s == a.s  u == SessUser[s] IN
  IF t \in M(S.sess[s].subs) THEN Reply(S, 304)
  ELSE IF ~S.topics[t].exists THEN Reply(S, 404)
  ELSE LET S0 == Load(S, t)
           c == S0.cache[t]
           pud == c.per[u]
           pm == IF a.mode = <<"-">> THEN [ok |-> TRUE, m |-> Unset] ELSE Parse(a.mode)
           mw == IF pm.m = Unset THEN Unset ELSE Mask(pm.m)
       IN IF ~c.ischan THEN Reply(S0, 404)                                  \* verifyChannelAccess: not a channel
          ELSE IF ~pm.ok THEN Reply(S0, 400)
          ELSE IF pud.in /\ ~pud.ischan THEN Reply(S0, 303)                 \* a full subscriber must use the grpXXX name
          ELSE IF pud.in THEN (IF mw = Unset THEN Reply(AttachC(S0, t, s, TRUE), 200) ELSE Reply(S0, -1))
          ELSE LET row == S0.csubs[t][u]
                   oldWant == IF row.st = "live" THEN M(row.want) ELSE CChnReader
                   want == IF mw = Unset THEN oldWant ELSE (mw \cap CChnReader) \cup {"R", "J"}
                   S1 == [S0 EXCEPT !.csubs[t][u] = IF row.st # "live" THEN FreshRow(want, CChnReader)
                                                     ELSE IF want # oldWant THEN [row EXCEPT !.want = T(want)] ELSE row,
                                    !.cache[t].per[u] = [NoPer EXCEPT !.in = TRUE, !.want = T(want), !.given = T(CChnReader), !.ischan = TRUE]]
               IN Reply(AttachC(S1, t, s, TRUE), 200)

\* ---------------------------------------------------------------- Sub  ({sub} to an existing group topic)
SubStep(S, a) ==
  LET t == a.t  s == a.s  u == SessUser[s] IN
  IF IsP2P(t) THEN P2PSubStep(S, a)
  ELSE IF a.chan THEN ChanSubStep(S, a)
  ELSE IF t \notin M(S.sess[s].subs) /\ S.cache[t].loaded /\ S.cache[t].per[u].in /\ S.cache[t].per[u].ischan
       THEN Reply(S, 303)            \* a cached channel READER addressing the topic as a member: "use other" (the chnXXX name)
  ELSE IF t \in M(S.sess[s].subs) THEN Reply(S, 304)                     \* session.subscribe: already subscribed
  ELSE IF ~S.topics[t].exists THEN Reply(S, 404)                     \* topicInit: ErrTopicNotFound
  ELSE LET S0 == Load(S, t)
           r == ThisUserSub(S0, t, u, a.mode)
           pud == r.st.cache[t].per[u]
           joined == r.code = 0 /\ pud.in /\ (r.chg => "J" \in Eff(pud))
       IN IF r.code # 0 THEN Reply(r.st, r.code)
          ELSE IF joined THEN Reply(Attach(r.st, t, s), 200)
          ELSE Reply(r.st, 200)

\* ---------------------------------------------------------------- Leave / LeaveUnsub
AttChan(c, s) == \E x \in AttOf(c) : x.s = s /\ x.chan
LeaveStep(S, a) ==
  LET t == a.t  s == a.s  u == SessUser[s]  c == S.cache[t]
      asChan == a.chan /\ c.loaded /\ c.ischan IN
  IF t \notin M(S.sess[s].subs) THEN (IF a.unsub THEN Reply(S, 409) ELSE Reply(S, 304))
  ELSE IF a.chan /\ ~c.ischan THEN Reply(S, -1)                        \* channel addressing of a plain group: replies 404 and goes on; not modelled
  ELSE IF ~a.unsub THEN
       (IF AttChan(c, s) # asChan
        \* addressed with the wrong spelling (grp vs chn): refused, nothing is detached
        THEN Reply(S, 404)
        ELSE Reply(Detach(S, t, s), 200))
  ELSE IF asChan /\ c.per[u].in /\ c.per[u].ischan THEN
       \* a reader unsubscribes from the channel: the chnXXX row is soft-deleted, the reader forgotten
       (IF S.csubs[t][u].st # "live" THEN Reply(S, 304)
        ELSE Reply(Evict([S EXCEPT !.csubs[t][u].st = "del"], t, u, TRUE), 200))
  ELSE IF asChan # (c.per[u].in /\ c.per[u].ischan) THEN Reply(S, -1)
  ELSE IF ~IsP2P(t) /\ c.owner = u THEN Reply(S, 403)               \* owner cannot unsubscribe
  ELSE IF S.subs[t][u].st # "live" THEN Reply(S, 304)               \* ErrNotFound from the store: InfoNoAction
  ELSE LET S1 == Evict(UnsubRow(S, t, u), t, u, TRUE) IN
       \* the last participant of a p2p topic leaving deletes the whole topic (hub.topicUnreg with del=true)
       IF IsP2P(t) /\ LiveP2P(S1, t) = {} THEN Reply(DeleteTopic(S1, t), 200) ELSE Reply(S1, 200)

\* ---------------------------------------------------------------- {set sub} by the user for themselves, session attached
SetSelfStep(S, a) ==
  LET t == a.t  s == a.s  u == SessUser[s] IN
  IF IsP2P(t) THEN
     (IF t \notin M(S.sess[s].subs) THEN Reply(S, -1)         \* offline path on p2p topics: not modelled
      ELSE LET r == P2PThisUserSub(S, t, u, a.mode) IN
           IF r.code # 0 THEN Reply(r.st, r.code) ELSE IF r.chg THEN Reply(r.st, 200) ELSE Reply(r.st, 304))
  ELSE IF t \notin M(S.sess[s].subs) THEN
     \* hub.meta -> replyOfflineTopicSetSub: store only, even when the topic is loaded (DEV_OfflineSetSubBypassesCache)
     LET row == S.subs[t][u]
         pm == Parse(a.mode)
         mw == Mask(pm.m)
     IN IF a.mode = <<"-">> \/ a.mode = <<>> THEN Reply(S, 304)
        ELSE IF row.st # "live" THEN Reply(S, 404)
        ELSE IF ~pm.ok THEN Reply(S, 500)
        ELSE IF pm.m = Unset THEN Reply(S, 304)
        ELSE IF ("O" \in mw) # ("O" \in M(row.want)) THEN Reply(S, 403)
        ELSE IF mw = M(row.want) THEN Reply(S, 304)
        ELSE LET S1 == [S EXCEPT !.subs[t][u].want = T(mw)]
                 S2 == IF S.cache[t].loaded /\ ~DEV_OfflineSetSubBypassesCache /\ S.cache[t].per[u].in
                       THEN [S1 EXCEPT !.cache[t].per[u].want = T(mw)] ELSE S1
             IN Reply(S2, 200)
  ELSE IF S.cache[t].per[u].in /\ S.cache[t].per[u].ischan THEN Reply(S, 303)     \* a channel reader using the grpXXX name: "use other"
  ELSE LET before == S.cache[t].per[u]
           r == ThisUserSub(S, t, u, a.mode)
           after == r.st.cache[t].per[u]
       IN IF r.code # 0 THEN Reply(r.st, r.code)
          ELSE IF r.chg THEN Reply(r.st, 200)
          ELSE Reply(r.st, 304)

\* ---------------------------------------------------------------- {set sub user=X} : anotherUserSub
SetOtherStep(S, a) ==
  LET t == a.t  s == a.s  u == SessUser[s]  x == a.u  c == S.cache[t] IN
  IF IsP2P(t) THEN Reply(S, -1)                               \* {set sub user=X} on p2p topics: judged by the monitors only
  ELSE IF t \notin M(S.sess[s].subs) THEN Reply(S, -1)
  ELSE IF c.per[x].in /\ c.per[x].ischan THEN Reply(S, -1)      \* target is a cached channel reader: not modelled
  ELSE IF x = u THEN SetSelfStep(S, a)
  ELSE
  LET host == c.per[u]
      hostMode == Eff(host)
      pm == IF a.mode = <<"-">> THEN [ok |-> TRUE, m |-> Unset] ELSE Parse(a.mode)
      mg == IF pm.m = Unset THEN Unset ELSE Mask(pm.m)
      tgt == c.per[x]
  IN
  IF ~host.in \/ ~IsSharer(hostMode) THEN Reply(S, 403)
  ELSE IF ~pm.ok THEN Reply(S, 400)
  ELSE IF mg # Unset /\ ~IsAdmin(hostMode) THEN Reply(S, 403)
  ELSE IF mg # Unset /\ "O" \in mg /\ c.owner # u THEN Reply(S, 403)
  ELSE IF ~tgt.in THEN
     \* new invitation
     IF SubsCount(c) >= MaxSubs THEN Reply(S, 422)
     ELSE LET given == IF mg = Unset THEN AccessFor(c, x) \cup {"J"} ELSE mg
              row == S.subs[t][x]
              want == IF row.st # "none" THEN M(row.want) ELSE CAuth \cap given     \* user.Access.Auth & modeGiven
          IN IF "J" \notin want THEN Reply(S, 403)
             ELSE LET newrow == [st |-> "live", want |-> T(want), given |-> T(given), read |-> 0, recv |-> 0, delId |-> 0]
                      S1 == [S EXCEPT !.subs[t][x] = newrow,
                                      !.cache[t].per[x] = [NoPer EXCEPT !.in = TRUE, !.want = T(want), !.given = T(given)]]
                      S2 == IF "J" \notin given THEN Evict(S1, t, x, FALSE) ELSE S1
                  IN Reply(S2, 200)
  ELSE
     \* existing subscription
     LET oldGiven == M(tgt.given)
         given == IF mg = Unset THEN oldGiven ELSE mg
     IN IF given # oldGiven /\ c.owner = x /\ ("O" \notin given \/ "J" \notin given) THEN Reply(S, 403)
        ELSE LET S1 == [S EXCEPT !.subs[t][x].given = T(given), !.cache[t].per[x].given = T(given)]
                 S2 == IF "J" \notin given THEN Evict(S1, t, x, FALSE) ELSE S1
             IN Reply(S2, IF given # oldGiven THEN 200 ELSE 304)

\* ---------------------------------------------------------------- {del what=sub user=X}
DelSubStep(S, a) ==
  LET t == a.t  s == a.s  u == SessUser[s]  x == a.u  c == S.cache[t] IN
  IF IsP2P(t) THEN Reply(S, -1)
  ELSE IF t \notin M(S.sess[s].subs) THEN Reply(S, 409)
  ELSE IF ~IsAdmin(Eff(c.per[u])) \/ x = u THEN Reply(S, 403)
  ELSE IF ~c.per[x].in THEN Reply(S, 304)
  ELSE IF "O" \in Eff(c.per[x]) \/ "J" \notin M(c.per[x].want) THEN Reply(S, 403)
  ELSE Reply(Evict(IF S.subs[t][x].st = "live" THEN UnsubRow(S, t, x) ELSE S, t, x, TRUE), IF S.subs[t][x].st = "live" THEN 200 ELSE 304)

\* ---------------------------------------------------------------- {del what=topic}
\* hub.topicUnreg: owner of a loaded topic deletes it for everybody; anybody else on a loaded topic = leave+unsub;
\* unloaded topic: owner deletes, a subscriber unsubscribes, others get 304/403
DelTopicStep(S, a) ==
  LET t == a.t  s == a.s  u == SessUser[s]  c == S.cache[t] IN
  IF IsP2P(t) THEN
     (IF ~S.topics[t].exists THEN Reply(S, 304)
      ELSE IF c.loaded THEN
         \* fewer than two live participants: ANY requester's {del topic} removes the whole topic (hub.topicUnreg case 1.1.1)
         (IF Cardinality({v \in Users : c.per[v].in /\ ~c.per[v].deleted}) < 2 THEN Reply(DeleteTopic(S, t), 200)
          ELSE IF S.subs[t][u].st # "live" THEN Reply(S, 304)
          ELSE Reply(Evict(UnsubRow(S, t, u), t, u, TRUE), 200))
      ELSE LET live == LiveP2P(S, t) IN
           IF live = {} THEN Reply(DeleteTopic(S, t), 304)
           ELSE IF u \notin live THEN Reply(S, 304)
           ELSE IF Cardinality(live) < 2 THEN Reply(DeleteTopic(S, t), 200)
           ELSE Reply(UnsubRow(S, t, u), 200))
  ELSE IF ~S.topics[t].exists THEN Reply(S, 304)
  ELSE IF c.loaded THEN
     IF c.owner = u THEN Reply(DeleteTopic(S, t), 200)
     ELSE IF S.subs[t][u].st # "live" THEN Reply(S, 304)
     ELSE Reply(Evict(UnsubRow(S, t, u), t, u, TRUE), 200)
  ELSE
     LET row == S.subs[t][u] IN
     IF row.st # "live" THEN Reply(S, 304)          \* "if user has no subscription, tell him all is fine"
     ELSE IF "O" \in Eff(row) THEN Reply(DeleteTopic(S, t), 200)
     ELSE Reply(UnsubRow(S, t, u), 200)

\* ---------------------------------------------------------------- {set desc: defacs.auth, public} on an attached group topic
SetDescStep(S, a) ==
  LET t == a.t  s == a.s  u == SessUser[s]  c == S.cache[t] IN
  IF t \notin M(S.sess[s].subs) THEN Reply(S, -1)
  ELSE IF c.owner # u THEN Reply(S, 403)
  ELSE LET pm == Parse(a.auth)
           newAuth == IF a.auth = <<"-">> \/ pm.m = Unset THEN M(c.auth) ELSE Mask(pm.m)
           newPub == IF a.public = "-" THEN S.topics[t].public ELSE PublicText(a.public)
       IN IF a.auth # <<"-">> /\ ~pm.ok THEN Reply(S, 400)
          ELSE IF "O" \in newAuth THEN Reply(S, 400)
          ELSE IF newAuth = M(c.auth) /\ a.public = "-" THEN Reply(S, 304)    \* a supplied public always counts as a change
          ELSE Reply([S EXCEPT !.topics[t].auth = T(newAuth), !.topics[t].public = newPub, !.cache[t].auth = T(newAuth)], 200)

\* ---------------------------------------------------------------- {pub}
Writable(S, t, s) ==
  /\ t \in M(S.sess[s].subs)
  /\ S.cache[t].loaded
  /\ "W" \in Eff(S.cache[t].per[SessUser[s]])

PubStep(S, a) ==
  LET t == a.t  s == a.s  u == SessUser[s]  c == S.cache[t] IN
  IF t \notin M(S.sess[s].subs) THEN Reply(S, 409)                       \* ErrAttachFirst
  ELSE IF "W" \notin Eff(c.per[u]) THEN Reply(S, 403)
  ELSE LET n == c.last + 1
           reader == "R" \in Eff(c.per[u])
           S1 == [S EXCEPT !.topics[t].seq = n,
                           !.msgs[t] = Append(@, [seq |-> n, from |-> u, delId |-> 0, content |-> a.c]),
                           !.subs[t][u].read = IF reader THEN n ELSE @,
                           !.subs[t][u].recv = IF reader THEN n ELSE @,
                           !.cache[t].last = n,
                           !.cache[t].per[u].read = IF reader THEN n ELSE @,
                           !.cache[t].per[u].recv = IF reader THEN n ELSE @]
           dataTo == {x.s : x \in {y \in M(c.att) : y.chan \/ "R" \in Eff(c.per[y.u])}} \ (IF a.noecho THEN {s} ELSE {})
           pushTo == {v \in Users : c.per[v].in /\ {"P", "R"} \subseteq Eff(c.per[v]) /\ ~c.per[v].deleted /\ ~c.per[v].ischan}
       IN [st |-> S1, out |-> [code |-> 202, dataTo |-> dataTo, pushTo |-> pushTo, seq |-> n]]

\* ---------------------------------------------------------------- {del what=msg delseq=[...] hard=b}   (replyDelMsg + store.Messages.DeleteList)
RangeRec(p) == [low |-> p[1], hi |-> p[2]]
DelMsgStep(S, a) ==
  LET t == a.t  s == a.s  u == SessUser[s]  c == S.cache[t] IN
  IF t \notin M(S.sess[s].subs) THEN Reply(S, 409)
  ELSE LET mode == Eff(c.per[u])
           hard == a.hard /\ "D" \in mode
           clipped == [i \in DOMAIN a.ranges |-> Clip(a.ranges[i][1], a.ranges[i][2], c.last)]
       IN IF "D" \notin mode /\ "R" \notin mode THEN Reply(S, 403)
          ELSE IF a.ranges = <<>> \/ \E i \in DOMAIN clipped : ~clipped[i].ok THEN Reply(S, 400)
          ELSE LET rs == Normalize(SortSeq([i \in DOMAIN clipped |-> clipped[i].r], LAMBDA x, y : Less(x, y) /\ x # y))
                   ids == Union(rs)
                   n == c.del + 1
                   who == IF hard THEN "all" ELSE u
                   rows == [i \in DOMAIN rs |-> [delId |-> n, for |-> who, low |-> rs[i].low, hi |-> Hi(rs[i])]]
                   S1 == [S EXCEPT !.dlog[t] = @ \o rows,
                                   !.msgs[t] = [i \in DOMAIN @ |-> IF hard /\ @[i].seq \in ids /\ @[i].delId = 0
                                                                     THEN [@[i] EXCEPT !.delId = n, !.content = "null"] ELSE @[i]],
                                   !.topics[t].delId = n,
                                   !.subs[t] = [v \in Users |-> IF S.subs[t][v].st # "none" /\ (hard \/ v = u)
                                                                  THEN [S.subs[t][v] EXCEPT !.delId = n] ELSE S.subs[t][v]],
                                   !.cache[t].del = n,
                                   !.cache[t].per = [v \in Users |-> IF c.per[v].in /\ (hard \/ v = u)
                                                                      THEN [c.per[v] EXCEPT !.delId = n] ELSE c.per[v]]]
               IN [st |-> S1, out |-> [code |-> 200, dataTo |-> {}, pushTo |-> {}, seq |-> n]]

\* ---------------------------------------------------------------- {note what=read|recv seq=N}
NoteStep(S, a) ==
  LET t == a.t  s == a.s  u == SessUser[s]  c == S.cache[t] IN
  IF a.chan THEN
     \* channel reader: the mark is written to the chnXXX row; the live topic does not keep readers' marks
     \* (DEV_ChanReaderMarksNotCached: so every note looks new and a stale one LOWERS the stored mark)
     (IF ~c.loaded \/ ~c.ischan \/ t \notin M(S.sess[s].subs) \/ ~c.per[u].in \/ ~c.per[u].ischan THEN Reply(S, -1)
      ELSE LET n == a.seq  row == S.csubs[t][u]  seen == IF DEV_ChanReaderMarksNotCached THEN 0 ELSE (IF a.what = "read" THEN row.read ELSE row.recv) IN
           IF a.what \notin {"read", "recv"} \/ n <= 0 \/ n > c.last \/ "R" \notin Eff(c.per[u]) \/ n <= seen THEN Reply(S, 0)
           ELSE IF a.what = "recv" THEN Reply([S EXCEPT !.csubs[t][u].recv = n], 0)
           ELSE Reply([S EXCEPT !.csubs[t][u].read = n,
                                !.csubs[t][u].recv = IF DEV_ReadNoteRecvNotStored THEN @ ELSE (IF row.recv < n THEN n ELSE row.recv)], 0))
  ELSE
  \* a detached session's {note recv} is forwarded by the hub to the loaded topic; other detached notes get 409
  IF ~c.loaded \/ (t \notin M(S.sess[s].subs) /\ a.what # "recv") THEN Reply(S, 0)
  ELSE IF ~c.per[u].in \/ c.per[u].deleted THEN Reply(S, 0)          \* a removed p2p participant's notes are dropped
  ELSE LET pud == c.per[u]
           mode == Eff(pud)
           n == a.seq
       IN IF a.what \notin {"read", "recv"} \/ n <= 0 \/ n > c.last \/ "R" \notin mode THEN Reply(S, 0)
          ELSE IF a.what = "recv" THEN
                 IF n <= pud.recv THEN Reply(S, 0)
                 ELSE Reply([S EXCEPT !.cache[t].per[u].recv = n, !.subs[t][u].recv = n], 0)
          ELSE   IF n <= pud.read THEN Reply(S, 0)
                 ELSE LET rv == IF pud.recv < n THEN n ELSE pud.recv IN
                      Reply([S EXCEPT !.cache[t].per[u].read = n, !.cache[t].per[u].recv = rv,
                                      !.subs[t][u].read = n,
                                      !.subs[t][u].recv = IF DEV_ReadNoteRecvNotStored THEN @ ELSE rv], 0)

\* ---------------------------------------------------------------- idle unload (only when nobody is attached)
UnloadStep(S, a) ==
  LET c == S.cache[a.t] IN
  IF c.loaded /\ c.att = <<>> THEN Reply([S EXCEPT !.cache[a.t] = Unloaded], 0) ELSE Reply(S, 0)

\* ---------------------------------------------------------------- Reload (harness composite): every attached session leaves,
\* the idle timer unloads the topic, the same sessions subscribe again (in session order) -> the topic is rebuilt from the rows
RECURSIVE ResubAll(_, _, _)
ResubAll(S, t, ss) ==       \* ss: sequence of [s, chan]
  IF ss = <<>> THEN S
  ELSE ResubAll(SubStep(S, [a |-> "Sub", s |-> Head(ss).s, t |-> t, mode |-> <<"-">>, chan |-> Head(ss).chan]).st, t, Tail(ss))
RECURSIVE DetachAllOf(_, _, _)
DetachAllOf(S, t, ss) == IF ss = <<>> THEN S ELSE DetachAllOf(Detach(S, t, Head(ss).s), t, Tail(ss))

ReloadStep(S, a) ==
  LET t == a.t  c == S.cache[t] IN
  IF ~c.loaded THEN Reply(S, 0)
  ELSE IF \E i \in DOMAIN c.att : c.att[i].s \in RootSessions THEN Reply(S, -1)    \* on-behalf-of attachments are not modelled
  ELSE LET ss == [i \in DOMAIN c.att |-> [s |-> c.att[i].s, chan |-> c.att[i].chan]]          \* att is kept in session order
           S1 == DetachAllOf(S, t, ss)
           S2 == [S1 EXCEPT !.cache[t] = Unloaded]
       IN Reply(ResubAll(S2, t, ss), 0)

\* ---------------------------------------------------------------- session disconnect: detach from everything
DisconnectStep(S, a) ==
  LET s == a.s
      DetachAll[ts \in SUBSET Topics] == IF ts = {} THEN S
                                         ELSE LET t == CHOOSE x \in ts : TRUE IN Detach(DetachAll[ts \ {t}], t, s)
      S1 == DetachAll[M(S.sess[s].subs) \cap Topics]
  IN IF ~S.sess[s].live THEN Reply(S, 0)
     ELSE Reply([S1 EXCEPT !.sess[s] = [live |-> FALSE, subs |-> <<>>]], 0)

\* a new connection under the same abstract session name, logged in as the same user
ConnectStep(S, a) ==
  IF S.sess[a.s].live THEN Reply(S, 0) ELSE Reply([S EXCEPT !.sess[a.s] = [live |-> TRUE, subs |-> <<>>]], 0)

\* ---------------------------------------------------------------- observation requests: no state change
GetStep(S, a) == Reply(S, -2)     \* -2: the reply of an observation request is not predicted (its content is judged by the monitors)

Unmodelled(a) == ("obo" \in DOMAIN a /\ a.obo # "") \/ ("t" \in DOMAIN a /\ a.t \notin Topics)
                 \/ ("u" \in DOMAIN a /\ a.u \notin Users)
                 \/ a.a = "Suspend" \/ ("nopred" \in DOMAIN a /\ a.nopred)    \* account suspension is not modelled: monitors only
                 \/ ("chan" \in DOMAIN a /\ a.chan /\ a.a \notin {"NewGrp", "Sub", "Leave", "Note", "Get"})
                 \/ ("s" \in DOMAIN a /\ a.s \in RootSessions)
\* a logged pre-state in which a session lists a topic that is not loaded is outside the model (it cannot arise from Init);
\* Step stays total: such a step is not predicted (the monitors still judge it)
\* ... likewise a stored group topic without exactly one effective owner (left behind by a store fault in the middle of an
\* ownership transfer: three independent store calls): which of the rows the next load takes for the owner is not modelled
Inconsistent(S, a) == "t" \in DOMAIN a /\ a.t \in Topics
                      /\ \/ (~S.cache[a.t].loaded /\ \E x \in Sessions : a.t \in M(S.sess[x].subs))
                         \/ (a.t \in GrpTopics /\ S.topics[a.t].exists
                             /\ Cardinality({u \in Users : S.subs[a.t][u].st = "live" /\ "O" \in Eff(S.subs[a.t][u])}) # 1)
DeadSession(S, a) == "s" \in DOMAIN a /\ a.s \in Sessions /\ ~S.sess[a.s].live /\ a.a # "Connect"
\* Topic.handleMeta: a {get}/{set}/{del} from a session attached as channel reader but addressed grpXXX (or attached as member and
\* addressed chnXXX) is answered 404 and does nothing (a reader must not be served as a member); the owner's {del topic} is decided
\* by the hub before the topic sees it
AddrMismatch(S, a) ==
  /\ a.a \in {"SetSelf", "SetOther", "DelSub", "SetDesc", "DelMsg", "Get", "DelTopic"}
  /\ "chan" \in DOMAIN a /\ "s" \in DOMAIN a /\ "t" \in DOMAIN a /\ a.t \in Topics /\ a.s \in Sessions \ RootSessions
  /\ ~("obo" \in DOMAIN a /\ a.obo # "")
  /\ S.cache[a.t].loaded
  /\ \E x \in AttOf(S.cache[a.t]) : x.s = a.s /\ x.chan # a.chan
  /\ ~(a.a = "DelTopic" /\ S.cache[a.t].owner = SessUser[a.s])
Step(S, a) ==
  CASE DeadSession(S, a) -> Reply(S, 0)              \* the harness does not send requests on a closed connection
    [] AddrMismatch(S, a) -> Reply(S, 404)
    [] Unmodelled(a) \/ Inconsistent(S, a) -> Reply(S, -1)
    [] a.a = "NewGrp"     -> NewGrpStep(S, a)
    [] a.a = "Sub"        -> SubStep(S, a)
    [] a.a = "Leave"      -> LeaveStep(S, a)
    [] a.a = "SetSelf"    -> SetSelfStep(S, a)
    [] a.a = "SetOther"   -> SetOtherStep(S, a)
    [] a.a = "DelSub"     -> DelSubStep(S, a)
    [] a.a = "DelTopic"   -> DelTopicStep(S, a)
    [] a.a = "SetDesc"    -> SetDescStep(S, a)
    [] a.a = "DelMsg"     -> DelMsgStep(S, a)
    [] a.a = "Pub"        -> PubStep(S, a)
    [] a.a = "Note"       -> NoteStep(S, a)
    [] a.a = "Unload"     -> UnloadStep(S, a)
    [] a.a = "Reload"     -> ReloadStep(S, a)
    [] a.a = "Disconnect" -> DisconnectStep(S, a)
    [] a.a = "Connect"    -> ConnectStep(S, a)
    [] a.a = "Get"        -> GetStep(S, a)
    [] OTHER              -> Reply(S, 0)

Modelled(a) == ~Unmodelled(a) /\ a.a \in {"Connect", "Reload", "DelMsg", "DelTopic", "SetDesc", "NewGrp", "Sub", "Leave", "SetSelf", "SetOther", "DelSub", "Pub", "Note", "Unload", "Disconnect", "Get"}
=============================================================================
