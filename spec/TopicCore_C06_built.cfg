CONSTANTS
  DEV_ParseStopsAtN = FALSE
  DEV_DeltaSingleCharNoop = FALSE
  DEV_NewSubWantO = TRUE
  DEV_UnsetWantTakesGiven = TRUE
  DEV_AdminSelfRaise = FALSE
  Users = {"u1", "u2", "u3"}
  UserOrder = <<"u1", "u2", "u3">>
  Sessions = {"s1", "s2", "s3"}
  SessOrder = <<"s1", "s2", "s3">>
  SessUser = [s1 |-> "u1", s2 |-> "u2", s3 |-> "u3"]
  Topics = {"g1"}
  TopicOrder = <<"g1">>
  MaxSubs = 3
  WantModes = {<<"-">>, <<"N">>, <<"J","R">>, <<"J","R","A">>, <<"J","R","A","S","O">>}
  GivenModes = {<<"-">>, <<"N">>, <<"J","R">>, <<"J","R","A","S">>, <<"J","R","A","S","O">>}
  Kinds = {"NewGrp", "Sub", "Leave", "SetSelf", "SetOther", "DelSub", "Unload"}
  MaxSeq = 0
  MaxDepth = 0
  Props = {"C06", "C07", "C08"}
  DumpPrefix = ""
INIT Init
NEXT Next
INVARIANT MonitorsHold
CHECK_DEADLOCK FALSE
