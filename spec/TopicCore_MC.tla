---------------------------- MODULE TopicCore_MC ----------------------------
(***************************************************************************)
(* Model-checking / behaviour-generation harness for TopicCore.            *)
(*  - exhaustive mode (U1): every reachable state, and for every request   *)
(*    enabled in it the monitors of the configured properties are          *)
(*    evaluated on the transition the model predicts;                      *)
(*  - simulation mode (U2): random behaviours, written one file per trace  *)
(*    (hist) for replay against the real server.                           *)
(***************************************************************************)
EXTENDS TopicMonitors, TLC, Json

CONSTANTS WantModes,    \* mode texts a user may put in {sub}/{set sub} for themselves, e.g. {<<"-">>, <<"N">>, <<"J","R">>}
          GivenModes,   \* mode texts an admin may grant
          Kinds,        \* subset of action kinds to explore
          MaxSeq,       \* bound on messages per topic
          MaxDepth,     \* bound on behaviour length (exhaustive mode: 0 = unbounded)
          Props,        \* properties whose monitors are checked on the model
          DumpPrefix,   \* "" = do not write behaviours
          DelRanges,    \* alphabet of delete-range lists, e.g. {<< <<1,0>> >>, << <<1,3>>, <<2,0>> >>}
          MaxDel,       \* bound on delete transactions per topic
          RandomWalk    \* TRUE (simulation): draw ONE enabled request per step instead of computing every successor

VARIABLES st, hist, last
vars == <<st, hist, last>>
\* exhaustive mode: states are identified by st alone; `last` (the request that led here) only labels error traces
StView == st

Contents == {"c1", "c2"}

Acts(S) ==
  LET newgrp == {[a |-> "NewGrp", s |-> s, t |-> t, mode |-> <<"-">>, chan |-> ("Chan" \in Kinds)] : s \in {SessOrder[1]}, t \in {x \in GrpTopics : ~S.topics[x].exists}}
      chan == {[a |-> "Sub", s |-> s, t |-> t, mode |-> m, chan |-> TRUE, bg |-> FALSE] : s \in Sessions, t \in {x \in GrpTopics : S.topics[x].exists}, m \in {<<"-">>, <<"J","R">>, <<"J","R","W","P">>}}
              \cup {[a |-> "Leave", s |-> s, t |-> t, unsub |-> b, chan |-> TRUE] : s \in Sessions, t \in {x \in GrpTopics : S.topics[x].exists}, b \in BOOLEAN}
              \cup {[a |-> "Note", s |-> s, t |-> t, what |-> w, seq |-> n, chan |-> TRUE] : s \in Sessions, t \in {x \in GrpTopics : S.topics[x].exists}, w \in {"read", "recv"}, n \in 1..MaxSeq}
              \cup {[a |-> "Get", s |-> s, t |-> t, what |-> "data", since |-> 0, before |-> 0, limit |-> 0, chan |-> TRUE] : s \in Sessions, t \in {x \in GrpTopics : S.topics[x].exists}}
      live == {t \in GrpTopics : S.topics[t].exists}
      \* p2p topics and on-behalf-of requests are not tracked by the model: their requests are drawn blindly
      pt == Topics \ GrpTopics
      p2p == {[a |-> "Sub", s |-> s, t |-> t, mode |-> m, chan |-> FALSE, bg |-> FALSE] : s \in Sessions, t \in pt, m \in {<<"-">>, <<"J","R","W","P","A","S","D">>, <<"J","R">>, <<"N">>}}
             \cup {[a |-> "Leave", s |-> s, t |-> t, unsub |-> b, chan |-> FALSE] : s \in Sessions, t \in pt, b \in BOOLEAN}
             \cup {[a |-> "Pub", s |-> s, t |-> t, c |-> "c1", noecho |-> FALSE, chan |-> FALSE] : s \in Sessions, t \in pt}
             \cup {[a |-> "Note", s |-> s, t |-> t, what |-> w, seq |-> n, chan |-> FALSE] : s \in Sessions, t \in pt, w \in {"read", "recv"}, n \in 1..3}
             \cup {[a |-> "SetSelf", s |-> s, t |-> t, mode |-> m, chan |-> FALSE] : s \in Sessions, t \in pt, m \in {<<"J","R","W","P","A","S">>, <<"J","W","P">>, <<"N">>}}
             \cup {[a |-> "SetOther", s |-> s, t |-> t, u |-> u, mode |-> m, chan |-> FALSE] : s \in Sessions, t \in pt, u \in Users, m \in {<<"J","R","W","P","A","S","D","O">>, <<"N">>}}
             \cup {[a |-> "DelTopic", s |-> s, t |-> t, hard |-> TRUE, chan |-> FALSE] : s \in Sessions, t \in pt}
             \cup {[a |-> "Unload", t |-> t] : t \in pt} \cup {[a |-> "Reload", t |-> t] : t \in pt}
      \* self / search / system topics: not tracked by the model, judged by the monitors
      special == {[a |-> "Sub", s |-> s, t |-> t, mode |-> <<"-">>, chan |-> FALSE, bg |-> FALSE] : s \in Sessions, t \in {"me", "fnd", "sys"} \cup {"fnd:" \o u : u \in Users}}
                 \cup {[a |-> "Pub", s |-> s, t |-> t, c |-> "c1", noecho |-> FALSE, chan |-> FALSE] : s \in Sessions, t \in {"me", "fnd", "sys"}}
                 \cup {[a |-> "Leave", s |-> s, t |-> t, unsub |-> b, chan |-> FALSE] : s \in Sessions, t \in {"me", "fnd", "sys"}, b \in BOOLEAN}
      obo == {[a |-> "Sub", s |-> s, t |-> t, mode |-> <<"-">>, chan |-> FALSE, bg |-> FALSE, obo |-> u] : s \in RootSessions, t \in live, u \in Users}
             \cup {[a |-> "Pub", s |-> s, t |-> t, c |-> "c1", noecho |-> FALSE, chan |-> FALSE, obo |-> u] : s \in RootSessions, t \in live, u \in Users}
             \cup {[a |-> "Leave", s |-> s, t |-> t, unsub |-> FALSE, chan |-> FALSE, obo |-> u] : s \in RootSessions, t \in live, u \in Users}
             \* history and deletions requested by root on behalf of a user (when the property's kinds include them)
             \cup (IF "GetData" \in Kinds THEN {[a |-> "Get", s |-> s, t |-> t, what |-> "data", since |-> q[1], before |-> q[2], limit |-> q[3], chan |-> FALSE, obo |-> u] :
                                                 s \in RootSessions, t \in live, u \in Users, q \in {<<0, 0, 0>>, <<2, 0, 0>>, <<0, 0, 2>>}} ELSE {})
             \cup (IF "GetDel" \in Kinds THEN {[a |-> "Get", s |-> s, t |-> t, what |-> "del", since |-> 0, before |-> 0, limit |-> 0, chan |-> FALSE, obo |-> u] :
                                                s \in RootSessions, t \in live, u \in Users} ELSE {})
             \cup (IF "DelMsg" \in Kinds THEN {[a |-> "DelMsg", s |-> s, t |-> t, ranges |-> rg, hard |-> h, chan |-> FALSE, obo |-> u] :
                                                s \in RootSessions, t \in {x \in live : S.topics[x].delId < MaxDel}, u \in Users, rg \in DelRanges, h \in BOOLEAN} ELSE {})
      sub == {[a |-> "Sub", s |-> s, t |-> t, mode |-> m, chan |-> FALSE, bg |-> FALSE] : s \in Sessions, t \in live, m \in WantModes}
      leave == {[a |-> "Leave", s |-> s, t |-> t, unsub |-> b, chan |-> FALSE] : s \in Sessions, t \in live, b \in BOOLEAN}
      setself == {[a |-> "SetSelf", s |-> s, t |-> t, mode |-> m, chan |-> FALSE] : s \in Sessions, t \in live, m \in WantModes \ {<<"-">>}}
      deltopic == {[a |-> "DelTopic", s |-> s, t |-> t, hard |-> TRUE, chan |-> FALSE] : s \in Sessions, t \in live}
      setdesc == {[a |-> "SetDesc", s |-> s, t |-> t, auth |-> m, public |-> p, chan |-> FALSE] :
                    s \in {x \in Sessions : \E t \in live : t \in M(S.sess[x].subs)}, t \in live,
                    m \in {<<"-">>, <<"J","R">>, <<"N">>}, p \in {"-", "x"}}
      setother == {[a |-> "SetOther", s |-> s, t |-> t, u |-> u, mode |-> m, chan |-> FALSE] :
                     s \in {x \in Sessions : \E t \in live : t \in M(S.sess[x].subs)}, t \in live, u \in Users, m \in GivenModes}
      delsub == {[a |-> "DelSub", s |-> s, t |-> t, u |-> u, chan |-> FALSE] : s \in Sessions, t \in live, u \in Users}
      pub == {[a |-> "Pub", s |-> s, t |-> t, c |-> c, noecho |-> ne, chan |-> FALSE] :
                s \in Sessions, t \in {x \in live : S.topics[x].seq < MaxSeq}, c \in {"c1"}, ne \in BOOLEAN}
      note == {[a |-> "Note", s |-> s, t |-> t, what |-> w, seq |-> n, chan |-> FALSE] :
                s \in Sessions, t \in live, w \in {"read", "recv"}, n \in 0..(MaxSeq + 1)}
      delmsg == {[a |-> "DelMsg", s |-> s, t |-> t, ranges |-> rg, hard |-> h, chan |-> FALSE] :
                   s \in Sessions, t \in {x \in live : S.topics[x].delId < MaxDel}, rg \in DelRanges, h \in BOOLEAN}
      conn == {[a |-> "Disconnect", s |-> s] : s \in {x \in Sessions : S.sess[x].live /\ x \notin RootSessions}}
              \cup {[a |-> "Connect", s |-> s] : s \in {x \in Sessions : ~S.sess[x].live}}
      reload == {[a |-> "Reload", t |-> t] : t \in {x \in live : S.cache[x].loaded}}
      getdata == {[a |-> "Get", s |-> s, t |-> t, what |-> "data", since |-> q[1], before |-> q[2], limit |-> q[3], chan |-> FALSE] :
                    s \in Sessions, t \in live, q \in {<<0, 0, 0>>, <<2, 0, 0>>, <<0, 3, 0>>, <<2, 4, 0>>, <<3, 2, 0>>, <<0, 0, 2>>, <<1, 9, 1>>}}
      getdel == {[a |-> "Get", s |-> s, t |-> t, what |-> "del", since |-> q[1], before |-> q[2], limit |-> 0, chan |-> FALSE] :
                    s \in Sessions, t \in live, q \in {<<0, 0>>, <<1, 0>>, <<2, 0>>, <<1, 2>>}}
      unload == {[a |-> "Unload", t |-> t] : t \in {x \in live : S.cache[x].loaded /\ S.cache[x].att = <<>>}}
  IN (IF "NewGrp" \in Kinds THEN newgrp ELSE {}) \cup (IF "Sub" \in Kinds THEN sub ELSE {})
     \cup (IF "Leave" \in Kinds THEN leave ELSE {}) \cup (IF "SetSelf" \in Kinds THEN setself ELSE {})
     \cup (IF "DelTopic" \in Kinds THEN deltopic ELSE {})
     \cup (IF "SetDesc" \in Kinds THEN {x \in setdesc : x.t \in M(S.sess[x.s].subs) /\ ~(x.auth = <<"-">> /\ x.public = "-")} ELSE {})
     \cup (IF "SetOther" \in Kinds THEN { x \in setother : x.t \in M(S.sess[x.s].subs) /\ x.u # SessUser[x.s]} ELSE {})
     \cup (IF "DelSub" \in Kinds THEN delsub ELSE {}) \cup (IF "Pub" \in Kinds THEN pub ELSE {})
     \cup (IF "Note" \in Kinds THEN note ELSE {})
     \cup (IF "P2P" \in Kinds THEN p2p ELSE {}) \cup (IF "Obo" \in Kinds THEN obo ELSE {}) \cup (IF "Special" \in Kinds THEN special ELSE {})
     \cup (IF "Chan" \in Kinds THEN {x \in chan : x.a = "Sub" \/ x.t \in M(S.sess[x.s].subs)} ELSE {})
     \* requests that need attachment are drawn for attached sessions (plus one detached representative: the refusal path)
     \cup (IF "DelMsg" \in Kinds THEN {x \in delmsg : x.t \in M(S.sess[x.s].subs) \/ (x.s = SessOrder[Len(SessOrder)] /\ x.ranges = << <<1, 0>> >>)} ELSE {})
     \cup (IF "GetData" \in Kinds THEN {x \in getdata : x.t \in M(S.sess[x.s].subs) \/ (x.s = SessOrder[Len(SessOrder)] /\ x.since = 0 /\ x.before = 0 /\ x.limit = 0)} ELSE {})
     \cup (IF "GetDel" \in Kinds THEN {x \in getdel : x.t \in M(S.sess[x.s].subs) \/ (x.s = SessOrder[Len(SessOrder)] /\ x.since = 0 /\ x.before = 0)} ELSE {}) \cup (IF "Unload" \in Kinds THEN unload ELSE {}) \cup (IF "Reload" \in Kinds THEN reload ELSE {}) \cup (IF "Conn" \in Kinds THEN conn ELSE {})

\* what clients would observe according to the model
ObsOf(S, a, r) ==
  LET isPub == a.a = "Pub" /\ r.out.code = 202 IN
  [code |-> r.out.code,
   nack |-> IF a.a \in {"Note", "Unload", "Reload", "Disconnect", "Connect"} THEN 0 ELSE 1,
   data |-> IF isPub THEN {[s |-> x, seq |-> r.out.seq, from |-> SessUser[a.s], content |-> a.c, topic |-> a.t, aschan |-> AttChan(S.cache[a.t], x)] : x \in r.out.dataTo} ELSE {},
   ndata |-> [x \in Sessions |-> IF isPub /\ x \in r.out.dataTo THEN 1 ELSE 0],
   push |-> IF isPub THEN {r.out.pushTo} ELSE {},
   ackSeq |-> IF isPub THEN r.out.seq ELSE 0,
   ackDel |-> IF a.a = "DelMsg" /\ r.out.code = 200 THEN r.out.seq ELSE 0,
   delmeta |-> {},
   afterCrash |-> FALSE, suspended |-> {},
   acs |-> {},
   sysPre |-> 0, sysPost |-> 0, info |-> {}, infoPredicted |-> FALSE,
   pushChan |-> IF isPub THEN {[channel |-> IF S.cache[a.t].ischan THEN a.t ELSE "", ischn |-> S.cache[a.t].ischan]} ELSE {},
   nested |-> [fired |-> FALSE, code |-> 0, act |-> [a |-> "none"], method |-> ""]]

\* simulation: first draw the KIND of request uniformly among the kinds that have an enabled instance, then the instance
\* (otherwise kinds with large argument alphabets crowd out publishes and subscriptions)
KindOf(a) == IF a.a = "Get" THEN "Get" \o a.what
             ELSE IF "obo" \in DOMAIN a THEN "obo" \o a.a
             ELSE IF "chan" \in DOMAIN a /\ a.chan /\ a.a # "NewGrp" THEN "chan" \o a.a
             ELSE IF "t" \in DOMAIN a /\ a.t \notin Topics THEN "special" \o a.a
             ELSE IF "t" \in DOMAIN a /\ a.t \notin GrpTopics THEN "p2p" \o a.a ELSE a.a
RandomAct(S) ==
  LET acts == Acts(S)
      k == RandomElement({KindOf(a) : a \in acts})
  IN RandomElement({a \in acts : KindOf(a) = k})

Init == st = InitState /\ hist = <<>> /\ last = [a |-> "Init"]

Next == /\ (MaxDepth = 0 \/ Len(hist) < MaxDepth)
        /\ \E a \in (IF RandomWalk THEN {RandomAct(st)} ELSE Acts(st)) :
             /\ st' = Step(st, a).st
             /\ hist' = IF DumpPrefix = "" THEN <<>> ELSE Append(hist, a)
             /\ last' = a
Spec == Init /\ [][Next]_vars

\* the monitors of the configured properties hold on every transition the model can take from a reachable state
MonitorsHold == \A a \in Acts(st) : LET r == Step(st, a)
                                           tags == Tagged(st, a, ObsOf(st, a, r), r.st, Props)
                                       IN tags = {} \/ (PrintT(<<"MONITOR", tags, a>>) /\ FALSE)

\* simulation mode: write the behaviour so far (one file per trace; the last write is the whole behaviour)
DumpHist == DumpPrefix = "" \/ hist = <<>> \/
            ndJsonSerialize(DumpPrefix \o ToString(TLCGet("stats").traces) \o ".ndjson", hist)
=============================================================================
