---------------------------- MODULE TopicMonitors ----------------------------
(***************************************************************************)
(* Property monitors for the topic-level properties, stated over           *)
(* OBSERVABLE things only: the projected state before a step (pre), the    *)
(* request (a), what the clients observed (obs) and the projected state    *)
(* after the step (post).  The same operators are evaluated by TLC         *)
(*   - on every transition of the model (U1: TopicCore_*.cfg), with obs    *)
(*     predicted by Step, and                                              *)
(*   - on every step of every trace recorded from the real server          *)
(*     (Trace_TopicCore.tla), with obs taken from the real frames.         *)
(* Each monitor returns the set of names of violated clauses.              *)
(*                                                                         *)
(* obs = [code, nack (number of replies to the request),                   *)
(*        data : set of [s, seq, from, content]   {data} frames received,  *)
(*        ndata: [Sessions -> Nat]                number of {data} frames, *)
(*        push : set of sets of users             one per message receipt, *)
(*        ackSeq: the seq acknowledged to the publisher (0 if none)]       *)
(***************************************************************************)
EXTENDS TopicCore, FiniteSets

Live(S, t) == S.topics[t].exists
EffOwners(S, t) == {u \in Users : S.subs[t][u].st = "live" /\ "O" \in Eff(S.subs[t][u])}
\* the user a request acts as: the session's user, or the user named in extra.obo (root sessions only)
Actor(a) == IF "obo" \in DOMAIN a /\ a.obo # "" THEN a.obo ELSE IF "s" \in DOMAIN a THEN SessUser[a.s] ELSE ""
P2PTopics == Topics \ GrpTopics
\* the two participants of p2p topic "pXY" are given by the constant P2PUsers[t] (declared in TopicCore)
IsReq(a) == "s" \in DOMAIN a /\ "t" \in DOMAIN a /\ a.t \in Topics
Accepted(obs) == obs.code >= 200 /\ obs.code < 300

If(c, name) == IF c THEN {} ELSE {name}

\* ------------------------------------------------------------------ C06: exactly one owner
M_C06(pre, a, obs, post) ==
  UNION {
    LET t == tt IN
    If(Live(post, t) => Cardinality(EffOwners(post, t)) = 1, "ExactlyOneEffectiveOwner")
    \cup If(Live(post, t) /\ post.cache[t].loaded /\ Cardinality(EffOwners(post, t)) = 1
            => post.cache[t].owner \in EffOwners(post, t), "LiveTopicKnowsTheOwner")
    \cup If(Live(post, t) /\ Cardinality(EffOwners(post, t)) = 1 => post.topics[t].owner \in EffOwners(post, t), "StoredOwnerIsTheOwner")
    \cup (IF Live(pre, t) /\ Live(post, t) /\ Cardinality(EffOwners(pre, t)) = 1 THEN
            LET o == CHOOSE u \in EffOwners(pre, t) : TRUE
                actor == Actor(a) IN
            \* nobody else can remove, ban or demote the owner; the owner cannot unsubscribe or drop O except by transfer
            If(o \in EffOwners(post, t) \/ (EffOwners(post, t) # {} /\ o \notin EffOwners(post, t)
                                              /\ actor \in EffOwners(post, t) /\ "O" \in M(pre.subs[t][actor].given)),
               "OwnershipLeavesOnlyByAcceptedTransfer")
            \cup If(actor # o =>
                      \/ (post.subs[t][o].st = "live" /\ post.subs[t][o].want = pre.subs[t][o].want
                                                      /\ post.subs[t][o].given = pre.subs[t][o].given)
                      \/ (actor \in EffOwners(post, t) /\ post.subs[t][o].st = "live"       \* the strip at an accepted transfer
                             /\ M(post.subs[t][o].want) = M(pre.subs[t][o].want) \ {"O"}
                             /\ M(post.subs[t][o].given) = M(pre.subs[t][o].given) \ {"O"}),
                    "OthersCannotRemoveBanOrDemoteOwner")
            \cup If(actor = o /\ IsReq(a) /\ a.a = "Leave" /\ a.t = t => post.subs[t][o].st = "live", "OwnerCannotUnsubscribe")
            \* only the owner deletes the topic for everybody or changes its public description / default access
            \cup If((~Live(post, t) \/ post.topics[t].public # pre.topics[t].public \/ post.topics[t].auth # pre.topics[t].auth
                     \/ post.topics[t].anon # pre.topics[t].anon) => actor = o, "OwnerOnlyOperations")
            \* O appears in somebody's GIVEN only by the owner's request
            \cup If(\A u \in Users : ("O" \in M(post.subs[t][u].given) /\ "O" \notin M(pre.subs[t][u].given)) => actor = o \/ u = actor,
                    "OnlyOwnerGrantsOwnership")
          ELSE {})
    \* only the owner deletes the topic for everybody (whether the topic is loaded or not)
    \cup (IF Live(pre, t) /\ ~Live(post, t) /\ Cardinality(EffOwners(pre, t)) = 1
          THEN If(Actor(a) \in EffOwners(pre, t), "OnlyOwnerDeletesTopic") ELSE {})
    : tt \in GrpTopics }

\* ------------------------------------------------------------------ C03: only writers publish; rejects have no effect
StoreOf(S) == [topics |-> S.topics, subs |-> S.subs, msgs |-> S.msgs]
\* self, search and system topics (not projected as topics: judged by reply and by the system topic's message counter)
M_C03_Special(a, obs) ==
  IF ~("t" \in DOMAIN a /\ "s" \in DOMAIN a /\ a.a = "Pub") THEN {}
  ELSE IF a.t \in {"me", "fnd"} THEN If(~Accepted(obs) /\ obs.code >= 400 /\ obs.data = {}, "SelfAndSearchTopicsRefusePublishes")
  ELSE IF a.t = "sys" THEN If(Accepted(obs) /\ obs.sysPost = obs.sysPre + 1, "SystemTopicAcceptsAnyLoggedInAuthor")
  ELSE {}

\* a publish that arrives while the owner's {del topic} is deleting the topic in the store (interleaving gate of the harness)
\* is refused with an error: the topic is "being deleted"
M_C03_Nested(a, obs) ==
  IF obs.nested.fired /\ obs.nested.act.a = "Pub" /\ a.a = "DelTopic" /\ obs.nested.method = "TopicDelete" /\ Accepted(obs)
  THEN If(obs.nested.code >= 400, "PublishRefusedWhileTopicIsBeingDeleted") ELSE {}

M_C03(pre, a, obs, post) ==
  IF ~(IsReq(a) /\ a.a = "Pub") THEN M_C03_Special(a, obs) \cup M_C03_Nested(a, obs) ELSE
  LET t == a.t  s == a.s  u == Actor(a)
      \* attached, and the author is currently subscribed with W in both the requested and the granted mode
      \* a topic is suspended while the account of its owner (group) or of one of its two participants (p2p) is suspended
      \* (obs.suspended: accounts whose STORED state was 'suspended' before the step; empty in the model, which has no such request)
      suspended == \E x \in obs.suspended : (t \in GrpTopics /\ pre.topics[t].owner = x) \/ (t \in P2PTopics /\ x \in P2PUsers[t])
      writable == /\ t \in M(pre.sess[s].subs)
                  /\ Live(pre, t)
                  /\ pre.subs[t][u].st = "live"
                  /\ "W" \in Eff(pre.subs[t][u])
                  /\ ~suspended IN
  If(Accepted(obs) <=> writable, IF suspended THEN "SuspendedTopicRefusesPublish" ELSE "AcceptedIffAttachedWriter")
  \cup If(~Accepted(obs) => obs.code >= 400, "RejectedPublishGetsErrorReply")
  \cup If(~Accepted(obs) => StoreOf(post) = StoreOf(pre) /\ post.cache = pre.cache, "RejectedPublishChangesNothing")
  \cup If(~Accepted(obs) => obs.data = {} /\ obs.push = {}, "RejectedPublishReachesNobody")

\* ------------------------------------------------------------------ C01: message ids unique, gapless, in order
Seqs(S, t) == {S.msgs[t][i].seq : i \in DOMAIN S.msgs[t]}
MaxSeqOf(S, t) == IF Seqs(S, t) = {} THEN 0 ELSE CHOOSE n \in Seqs(S, t) : \A m \in Seqs(S, t) : m <= n
M_C01(pre, a, obs, post) ==
  (IF IsReq(a) /\ a.a = "Pub" /\ Accepted(obs) THEN
     LET t == a.t IN
     \* next number = one above every message stored so far; after a crash (process death between the store writes of a
     \* publish) the numbering only has to continue strictly above everything shown
     If(obs.ackSeq = MaxSeqOf(pre, t) + 1 \/ (obs.afterCrash /\ obs.ackSeq > MaxSeqOf(pre, t)), "AckIsNextNumber")
     \cup If(\A d \in obs.data : d.seq = obs.ackSeq, "RecipientsSeeTheAckedNumber")
     \cup If(post.topics[t].seq = obs.ackSeq /\ (post.cache[t].loaded => post.cache[t].last = obs.ackSeq), "CountersAtAckedNumber")
     \cup If(\E i \in DOMAIN post.msgs[t] : post.msgs[t][i].seq = obs.ackSeq /\ post.msgs[t][i].content = a.c /\ post.msgs[t][i].from = Actor(a),
             "StoredUnderAckedNumber")
   ELSE {})
  \cup UNION { LET t == tt IN
       If(Len(post.msgs[t]) = Cardinality(Seqs(post, t)), "NoDuplicateNumbers")
       \cup If(Live(pre, t) /\ Live(post, t) => post.topics[t].seq >= pre.topics[t].seq, "StoredCounterNeverDecreases")
       \cup If(post.cache[t].loaded /\ Live(post, t) => post.cache[t].last >= MaxSeqOf(post, t), "LiveCounterCoversStoredMessages")
     : tt \in Topics }

\* ------------------------------------------------------------------ C02: exact fan-out
M_C02(pre, a, obs, post) ==
  IF ~(IsReq(a) /\ a.a = "Pub" /\ Accepted(obs)) THEN {} ELSE
  LET t == a.t  s == a.s  c == pre.cache[t]
      readers == {x.s : x \in {y \in AttOf(c) : y.chan \/ "R" \in Eff(c.per[y.u])}}
      expect == readers \ (IF a.noecho THEN {s} ELSE {})
      \* permissions as the live topic holds them (that they equal the stored ones is C08's clause, not this one's)
      pushExpect == IF ~c.loaded THEN {} ELSE
                    {v \in Users : c.per[v].in /\ ~c.per[v].deleted /\ ~c.per[v].ischan /\ {"P", "R"} \subseteq Eff(c.per[v])}
  IN
  If(c.loaded, "AcceptedPublishNeedsLiveTopic")
  \cup If({d.s : d \in obs.data} = expect, "ExactlyTheAttachedReaders")
  \cup If(\A x \in Sessions : obs.ndata[x] <= 1, "OneCopyEach")
  \* ... judged against the STORED subscriptions too: a session whose user unsubscribed (row deleted) gets nothing, even if the live
  \* topic still lists the session
  \cup If(\A d \in obs.data : \A y \in AttOf(c) : y.s = d.s => (IF y.chan THEN pre.csubs[t][y.u].st = "live" ELSE pre.subs[t][y.u].st = "live"),
          "NoCopyAfterUnsubscribing")
  \cup If(\A d \in obs.data : d.content = a.c /\ d.seq = obs.ackSeq, "CopyUnaltered")
  \* the true author, withheld from channel readers
  \cup If(\A d \in obs.data : d.from = (IF AttChan(c, d.s) THEN "" ELSE Actor(a)), "TrueAuthorWithheldFromChannelReaders")
  \* the name by which that recipient addresses the topic: the peer in p2p (abstracted to the topic), the chnXXX spelling for readers
  \cup If(\A d \in obs.data : d.topic = t /\ d.aschan = AttChan(c, d.s), "TopicNamedAsTheRecipientAddressesIt")
  \cup If(\A x \in obs.pushChan : IF c.loaded /\ c.ischan THEN x.channel = t /\ x.ischn ELSE x.channel = "", "ChannelReadersReachedThroughBroadcastAddressOnly")
  \* ... and they ARE reached: every accepted message of a channel-enabled topic is pushed to the channel's broadcast address,
  \* whether or not any full subscriber is addressed directly
  \cup If(c.loaded /\ c.ischan => \E x \in obs.pushChan : x.channel = t /\ x.ischn, "ChannelAddressedOnEveryPublish")
  \cup If(obs.push = {pushExpect} \/ (pushExpect = {} /\ obs.push \subseteq {{}}), "PushToReadersWithPresence")

\* ------------------------------------------------------------------ C07: who may change permissions
M_C07(pre, a, obs, post) ==
  UNION {
    LET t == tt  actor == Actor(a)
        actorMode == IF actor \in Users /\ pre.subs[t][actor].st = "live" THEN Eff(pre.subs[t][actor]) ELSE {} IN
    UNION {
      LET u == uu
          gPre == pre.subs[t][u]  gPost == post.subs[t][u]
          givenChanged == gPre.st = "live" /\ gPost.st = "live" /\ gPre.given # gPost.given
          wantChanged == gPre.st = "live" /\ gPost.st = "live" /\ gPre.want # gPost.want
          newRow == gPre.st # "live" /\ gPost.st = "live"
          strippedOwner == M(gPost.given) = M(gPre.given) \ {"O"} /\ M(gPost.want) = M(gPre.want) \ {"O"} /\ "O" \in Eff(post.subs[t][actor])
      IN
      \* given changes only by an approver/owner, or by an admin raising their own (not O, not D), or the strip at transfer
      If(givenChanged => \/ (u # actor /\ IsAdmin(actorMode))
                         \/ (u = actor /\ IsAdmin(M(gPre.given)) /\ (M(gPost.given) \ M(gPre.given)) \cap {"O", "D"} = {}
                                       /\ M(gPre.given) \subseteq M(gPost.given))
                         \/ (u = actor /\ "O" \in M(gPre.given) /\ M(gPre.given) \subseteq M(gPost.given))
                         \/ strippedOwner,
         "GivenChangedOnlyByAuthorised")
      \* (Reload is the harness composite "every attached session leaves and subscribes again": those are the attached users' own
      \*  requests; a {sub} of a user whose want lacks J un-self-bans, i.e. changes that user's own want)
      \cup If(wantChanged => u = actor \/ strippedOwner
                             \/ (a.a = "Reload" /\ a.t = t /\ \E x \in AttOf(pre.cache[t]) : x.u = u), "WantChangedOnlyBySelf")
      \* only the owner can grant ownership: O enters somebody else's grant only at the request of the effective owner
      \cup If(gPost.st = "live" /\ u # actor /\ "O" \in M(gPost.given) /\ ~(gPre.st = "live" /\ "O" \in M(gPre.given)) /\ Live(pre, t)
              => "O" \in actorMode, "OnlyOwnerGrantsOwnership")
      \* sharers can only invite with default access; explicit grants need A or O
      \cup If(newRow /\ u # actor => IsSharer(actorMode), "InviteNeedsSharer")
      \cup If(newRow /\ u # actor /\ ~IsAdmin(actorMode) => M(gPost.given) = M(pre.topics[t].auth) \cup {"J"}, "SharerInvitesWithDefaultOnly")
      \* resubscribing restores the previous grant
      \cup If(newRow /\ u = actor /\ gPre.st = "del" => gPost.given = gPre.given, "ResubscribeRestoresGrant")
      \* (root-level users get the built-in default JRWPS instead of the topic's: selectAccessMode's rootMode)
      \cup If(newRow /\ u = actor /\ gPre.st = "none" /\ Live(pre, t) /\ u \notin {SessUser[x] : x \in RootSessions}
              => gPost.given = pre.topics[t].auth, "FirstSubscriptionGetsDefaultGrant")
      : uu \in Users }
    \* at an accepted transfer the ownership bit is cleared from the previous owner, in the granted as well as in the requested mode
    \cup (IF actor \in Users /\ post.subs[t][actor].st = "live" /\ "O" \in Eff(post.subs[t][actor])
             /\ ~(pre.subs[t][actor].st = "live" /\ "O" \in Eff(pre.subs[t][actor]))
          THEN If(\A o \in Users \ {actor} : (pre.subs[t][o].st = "live" /\ "O" \in Eff(pre.subs[t][o]) /\ post.subs[t][o].st = "live")
                                                  => "O" \notin M(post.subs[t][o].given) /\ "O" \notin M(post.subs[t][o].want),
                  "TransferClearsPreviousOwner")
          ELSE {})
    \cup If(Live(post, t) => Cardinality({u \in Users : post.subs[t][u].st = "live"}) <= MaxSubs, "SubscriberLimit")
    \cup If(post.cache[t].loaded => \A x \in AttOf(post.cache[t]) : x.chan \/ "J" \in M(post.cache[t].per[x.u].given), "NoAttachWithoutJoinGrant")
    \* channel readers: the grant is fixed (JRP), the request stays within it and keeps J and R
    \cup If(\A u \in Users : post.csubs[t][u].st = "live" =>
                M(post.csubs[t][u].given) = CChnReader /\ M(post.csubs[t][u].want) \subseteq CChnReader /\ {"J", "R"} \subseteq M(post.csubs[t][u].want),
            "ChannelReaderModesFixed")
    \* (deleting the whole topic removes every reader's row: that is the owner's deletion, not a change of somebody's permissions;
    \*  Reload re-subscribes every attached reader: their own requests)
    \cup If(\A u \in Users : post.csubs[t][u] # pre.csubs[t][u] =>
                \/ u = actor
                \/ (pre.topics[t].exists /\ ~post.topics[t].exists)
                \/ (a.a = "Reload" /\ a.t = t /\ \E x \in AttOf(pre.cache[t]) : x.u = u), "ChannelReaderRowChangedOnlyBySelf")
    : tt \in GrpTopics }
  \cup UNION {
    LET t == tt IN
    \* a p2p topic never has a third participant; its modes never exceed JRWPA and always keep A
    If(\A u \in Users : post.subs[t][u].st # "none" /\ pre.subs[t][u].st = "none" => u \in P2PUsers[t], "P2PNoThirdParticipant")
    \cup If(\A u \in Users : post.subs[t][u].st = "live" /\ (pre.subs[t][u] # post.subs[t][u]) =>
               M(post.subs[t][u].want) \subseteq CP2P /\ M(post.subs[t][u].given) \subseteq CP2P, "P2PModesWithinJRWPA")
    \cup If(\A u \in Users : post.subs[t][u].st = "live" /\ (pre.subs[t][u] # post.subs[t][u]) /\ post.subs[t][u].given # <<>> =>
               "A" \in M(post.subs[t][u].given), "P2PKeepsApprove")
    \cup If(\A u \in Users : post.subs[t][u].st = "live" /\ (pre.subs[t][u] # post.subs[t][u]) /\ post.subs[t][u].want # <<>> =>
               "A" \in M(post.subs[t][u].want), "P2PKeepsApproveInWant")
    \cup If(post.cache[t].loaded => \A x \in AttOf(post.cache[t]) : x.u \in P2PUsers[t] /\ "J" \in M(post.cache[t].per[x.u].given), "P2PNoAttachWithoutJoinGrant")
    : tt \in P2PTopics }

M_C07_Special(a, obs) ==
  IF ~("t" \in DOMAIN a /\ "s" \in DOMAIN a /\ a.a = "Sub") THEN {}
  ELSE IF a.t = "sys" THEN If(Accepted(obs) => a.s \in RootSessions, "SystemTopicAdmitsOnlyRoot")
  ELSE IF \E u \in Users : a.t = "fnd:" \o u /\ u # SessUser[a.s] THEN If(~Accepted(obs), "SearchTopicAdmitsOnlyItsOwnUser")
  ELSE {}

\* ------------------------------------------------------------------ C08: live state = stored state
\* every cached field equals what a reload would compute from the rows; reported at the step that BREAKS it
Incons(S, t) ==
  LET c == S.cache[t] IN
  IF ~(c.loaded /\ Live(S, t)) THEN {} ELSE
    If(c.last = S.topics[t].seq, "LastIdStored")
    \cup If(c.del = S.topics[t].delId, "DelIdStored")
    \cup If(c.auth = S.topics[t].auth /\ c.anon = S.topics[t].anon, "DefaultAccessStored")
    \* full subscribers are the live grpXXX rows; a cached channel reader has a live chnXXX row
    \cup If(\A u \in Users : (c.per[u].in /\ ~c.per[u].deleted /\ ~c.per[u].ischan) <=> S.subs[t][u].st = "live", "SubscribersStored")
    \cup If(\A u \in Users : c.per[u].in /\ c.per[u].ischan => S.csubs[t][u].st = "live", "ChannelReadersStored")
    \cup If(\A u \in Users : c.per[u].in /\ c.per[u].ischan /\ S.csubs[t][u].st = "live" =>
               c.per[u].want = S.csubs[t][u].want /\ c.per[u].given = S.csubs[t][u].given, "ChannelReaderPermissionsStored")
    \cup If(\A u \in Users : c.per[u].in /\ S.subs[t][u].st = "live" => c.per[u].want = S.subs[t][u].want /\ c.per[u].given = S.subs[t][u].given, "PermissionsStored")
    \cup If(\A u \in Users : c.per[u].in /\ S.subs[t][u].st = "live" /\ "R" \in Eff(c.per[u]) =>
               c.per[u].read = S.subs[t][u].read /\ c.per[u].recv = S.subs[t][u].recv, "MarksStored")
    \cup If(\A u \in Users : c.per[u].in /\ S.subs[t][u].st = "live" => c.per[u].delId = S.subs[t][u].delId, "UserDelIdStored")
    \cup If(EffOwners(S, t) # {} => c.owner \in EffOwners(S, t), "OwnerStored")

\* what clients can see of a loaded topic (online counters and attachments excluded: they are not stored)
Visible8(c) == [last |-> c.last, del |-> c.del, owner |-> c.owner, auth |-> c.auth, anon |-> c.anon,
                per |-> [u \in Users |-> [c.per[u] EXCEPT !.online = 0]]]

M_C08(pre, a, obs, post) ==
  UNION { Incons(post, t) \ Incons(pre, t) : t \in Topics }
  \* unload + load between two requests changes nothing a client can see (judged when the live topic agreed with the rows)
  \cup (IF a.a = "Reload" /\ a.t \in Topics /\ pre.cache[a.t].loaded /\ post.cache[a.t].loaded /\ Incons(pre, a.t) = {}
           /\ StoreOf(pre) = StoreOf(post)
        THEN If(Visible8(post.cache[a.t]) = Visible8(pre.cache[a.t]), "ReloadChangesNothingVisible") ELSE {})
  \cup (IF IsReq(a) /\ obs.code >= 400 THEN If(StoreOf(post) = StoreOf(pre), "FailedRequestLeavesStoreUnchanged") ELSE {})

\* ------------------------------------------------------------------ C09: marks
\* bounds in every place marks are kept; reported at the step that breaks them
MarkBounds(S) ==
  UNION { UNION {
      LET r == S.subs[t][u] IN
      If(r.st = "live" /\ Live(S, t) => 0 <= r.read /\ r.read <= r.recv /\ r.recv <= S.topics[t].seq, "StoredMarksWithinBounds")
      \cup If(S.cache[t].loaded /\ S.cache[t].per[u].in =>
                 LET p == S.cache[t].per[u] IN 0 <= p.read /\ p.read <= p.recv /\ p.recv <= S.cache[t].last, "LiveMarksWithinBounds")
      : u \in Users } : t \in Topics }

\* relayed notifications ({info}) as the sessions received them: in the topic itself, or on 'me' with the topic as src
InfoTopic(f) == IF f.topic \in Topics THEN f.topic ELSE f.src
M_C09_Info(pre, a, obs) ==
  If(\A f \in obs.info : f.what = "kp" => SessUser[f.s] # f.from, "TypingNoteNeverReachesTheTypist")
  \cup If(\A f \in obs.info : ("s" \in DOMAIN a /\ a.a = "Note") => f.s # a.s, "NoteNeverRelayedToItsOriginSession")
  \cup If(\A f \in obs.info : (f.what \in {"read", "recv"} /\ InfoTopic(f) \in Topics /\ f.from \in Users) =>
             LET r == pre.subs[InfoTopic(f)][f.from] IN r.st = "live" /\ "R" \in Eff(r), "RelayedMarkComesFromSubscribedReader")
  \cup If(\A f \in obs.info : (f.what = "kp" /\ InfoTopic(f) \in Topics /\ f.from \in Users) =>
             LET r == pre.subs[InfoTopic(f)][f.from] IN r.st = "live" /\ "W" \in Eff(r), "TypingNoteComesFromSubscribedWriter")

M_C09(pre, a, obs, post) ==
  (MarkBounds(post) \ MarkBounds(pre))
  \cup M_C09_Info(pre, a, obs)
  \cup UNION {
    LET t == tt IN
    UNION {
      LET u == uu  r0 == pre.subs[t][u]  r1 == post.subs[t][u] IN
      If(r0.st = "live" /\ r1.st = "live" => r1.read >= r0.read /\ r1.recv >= r0.recv, "StoredMarksNeverDecrease")
      \* (a p2p participant who unsubscribed stays cached, flagged deleted; subscribing again is a NEW subscription: marks start at 0)
      \cup If(pre.cache[t].loaded /\ post.cache[t].loaded /\ pre.cache[t].per[u].in /\ post.cache[t].per[u].in
              /\ ~pre.cache[t].per[u].deleted /\ ~post.cache[t].per[u].deleted =>
                 post.cache[t].per[u].read >= pre.cache[t].per[u].read /\ post.cache[t].per[u].recv >= pre.cache[t].per[u].recv, "LiveMarksNeverDecrease")
      \* a topic that is loaded by this step reports no mark below the stored one (marks never decrease across unload / reload)
      \cup If(~pre.cache[t].loaded /\ post.cache[t].loaded /\ r0.st = "live" /\ r1.st = "live" /\ post.cache[t].per[u].in
              /\ ~post.cache[t].per[u].deleted /\ ~post.cache[t].per[u].ischan =>
                 post.cache[t].per[u].read >= r0.read /\ post.cache[t].per[u].recv >= r0.recv, "LoadedMarksNotBelowStored")
      \cup If(r0.st = "live" /\ r1.st = "live" /\ (r1.read # r0.read \/ r1.recv # r0.recv) =>
                 Actor(a) = u /\ IsReq(a) /\ a.t = t /\ (a.a = "Pub" \/ (a.a = "Note" /\ "R" \in Eff(r0))), "MarkMovesOnlyByOwnPublishOrNote")
      : uu \in Users }
    : tt \in Topics }
  \cup (IF IsReq(a) /\ a.a = "Note" THEN If(obs.nack = 0, "NotesAreNeverAnswered") ELSE {})
  \* channel readers' marks (stored under the chnXXX row)
  \cup UNION { UNION {
       LET r0 == pre.csubs[t][u]  r1 == post.csubs[t][u] IN
       If(r0.st = "live" /\ r1.st = "live" => r1.read >= r0.read /\ r1.recv >= r0.recv, "ChannelReaderMarksNeverDecrease")
       \cup If(r1.st = "live" /\ Live(post, t) /\ r1 # r0 => 0 <= r1.read /\ r1.recv <= post.topics[t].seq /\ r1.read <= post.topics[t].seq, "ChannelReaderMarksWithinBounds")
       : u \in Users } : t \in GrpTopics }
  \* relayed notifications: only to attached sessions of users with R, never the originating session, never channel readers,
  \* typing notes never to any session of the typist; they name the true sender and the recipient's own name for the topic
  \cup (IF IsReq(a) /\ a.a = "Note" /\ pre.cache[a.t].loaded THEN
          LET t == a.t  c == pre.cache[t]  u == Actor(a) IN
          UNION { LET f == ff
                      x == {y \in AttOf(c) : y.s = f.s} IN
                  IF f.topic = "me" /\ f.src = t THEN
                     \* relayed through the recipient's 'me' (Topic.infoSubsOffline): only to users who hold R in the topic
                     LET v == SessUser[f.s] IN
                     If(v \in Users /\ c.per[v].in /\ ~c.per[v].deleted /\ "R" \in Eff(c.per[v]), "InfoOnMeOnlyToReaders")
                  ELSE IF f.topic # t THEN {}       \* other notices on 'me' are presence's business (C10)
                  ELSE If(x # {} /\ \A y \in x : ~y.chan /\ c.per[y.u].in /\ "R" \in Eff(c.per[y.u]), "InfoOnlyToAttachedReaders")
                       \cup If(f.s # a.s, "InfoNeverToOriginatingSession")
                       \cup If(f.what \in {"kp", "kpa", "kpv"} => \A y \in x : y.u # u, "TypingNeverToTheTypist")
                       \cup If(f.from = u, "InfoNamesTrueSender")
                  : ff \in obs.info }
        ELSE {})

\* ------------------------------------------------------------------ C04: history and deletion are exact
RowIds(r) == r.low..(r.hi - 1)
SoftDel(S, t, u) == UNION {RowIds(S.dlog[t][i]) : i \in {j \in DOMAIN S.dlog[t] : S.dlog[t][j]["for"] = u}}
HardDel(S, t) == {S.msgs[t][i].seq : i \in {j \in DOMAIN S.msgs[t] : S.msgs[t][j].delId # 0}}
MsgBySeq(S, t, n) == S.msgs[t][CHOOSE i \in DOMAIN S.msgs[t] : S.msgs[t][i].seq = n]
Visible(S, t, u) == (Seqs(S, t) \ HardDel(S, t)) \ SoftDel(S, t, u)
\* the `k` largest elements of a finite set of integers
RECURSIVE Newest(_, _)
Newest(X, k) == IF k = 0 \/ X = {} THEN {} ELSE LET m == CHOOSE x \in X : \A y \in X : y <= x IN {m} \cup Newest(X \ {m}, k - 1)

\* a root session that asks on behalf of user X while it is attached to the topic on behalf of somebody else (or as itself):
\* the property speaks of "an attached user"; what such a request should see is not stated, so it is not judged
OboMismatch(pre, a) == "obo" \in DOMAIN a /\ a.obo # "" /\ a.t \in M(pre.sess[a.s].subs)
                       /\ ~(\E x \in AttOf(pre.cache[a.t]) : x.s = a.s /\ x.u = a.obo)
M_C04(pre, a, obs, post) ==
  IF ~IsReq(a) \/ OboMismatch(pre, a) THEN {} ELSE
  LET t == a.t  u == Actor(a)
      row == IF "chan" \in DOMAIN a /\ a.chan THEN pre.csubs[t][u] ELSE pre.subs[t][u]
      mode == IF row.st = "live" THEN Eff(row) ELSE {}
      attached == t \in M(pre.sess[a.s].subs)
      existing == Seqs(pre, t)
  IN
  IF a.a = "DelMsg" THEN
     LET last == pre.topics[t].seq
         \* the union the request lists: [low,hi) clipped to existing ids; hi = 0 or hi = low means the single id low
         req == UNION {LET lo == a.ranges[i][1]  hi == a.ranges[i][2] IN
                       (IF hi = 0 \/ hi = lo THEN {lo} ELSE lo..(hi - 1)) : i \in DOMAIN a.ranges} \cap existing
         hard == a.hard /\ "D" \in mode
         others == Users \ {u}
     IN
     (IF Accepted(obs) THEN
        If(obs.ackDel = pre.topics[t].delId + 1 /\ post.topics[t].delId = obs.ackDel, "DeleteGetsNextTransactionNumber")
        \cup If(~hard => HardDel(post, t) = HardDel(pre, t), "SoftDeleteErasesNothing")
        \cup If(~hard => SoftDel(post, t, u) \cap existing = (SoftDel(pre, t, u) \cup req) \cap existing, "SoftDeleteHidesExactlyTheUnionForRequester")
        \cup If(\A v \in others : SoftDel(post, t, v) = SoftDel(pre, t, v), "OthersSoftDeletionsUntouched")
        \cup If(hard => HardDel(post, t) = HardDel(pre, t) \cup (req \ SoftDel(pre, t, "nobody")), "HardDeleteHidesExactlyTheUnionForEveryone")
        \cup If(hard => \A n \in req : MsgBySeq(post, t, n).content = "null", "HardDeleteErasesContent")
        \cup If(\A n \in existing \ req : MsgBySeq(post, t, n) = MsgBySeq(pre, t, n), "UnlistedMessagesUntouched")
        \cup If(Seqs(post, t) = existing, "DeletionKeepsTheIdSpace")
      ELSE If(post.msgs[t] = pre.msgs[t] /\ post.dlog[t] = pre.dlog[t] /\ post.topics[t].delId = pre.topics[t].delId, "RejectedDeleteChangesNothing"))
     \cup If(Accepted(obs) => attached /\ ("R" \in mode \/ "D" \in mode), "DeleteNeedsReadOrDeletePermission")
  ELSE IF a.a = "Get" /\ a.what = "data" THEN
     LET before == IF a.before = 0 THEN pre.topics[t].seq + 1 ELSE a.before
         inRange == {n \in Visible(pre, t, u) : a.since <= n /\ n < before}
         limit == IF a.limit = 0 THEN 1024 ELSE a.limit
         expect == IF attached /\ "R" \in mode THEN Newest(inRange, limit) ELSE {}
         got == {d \in obs.data : d.s = a.s}
     IN If({d.seq : d \in got} = expect, "HistoryIsExactlyTheVisibleMessagesInRange")
        \cup If(\A d \in got : d.seq \in existing => d.content = MsgBySeq(pre, t, d.seq).content
                                   /\ d.from = (IF a.chan THEN "" ELSE MsgBySeq(pre, t, d.seq).from), "HistoryShowsWhatWasPublished")
        \cup If(Cardinality(got) <= limit /\ obs.ndata[a.s] = Cardinality(got), "HistoryRespectsLimitNoDuplicates")
        \cup If(\A d \in obs.data : d.s = a.s, "HistoryGoesToRequesterOnly")
  ELSE IF a.a = "Get" /\ a.what = "del" THEN
     LET mine == {i \in DOMAIN pre.dlog[t] : pre.dlog[t][i]["for"] \in {u, "all"} /\ pre.dlog[t][i].delId >= a.since
                                              /\ (a.before = 0 \/ pre.dlog[t][i].delId < a.before)}
         expect == UNION {RowIds(pre.dlog[t][i]) : i \in mine}
         got == {d \in obs.delmeta : d.s = a.s}
     IN If(attached /\ "R" \in mode /\ expect # {} => \E d \in got : d.ids = expect, "DeletionLogCoversExactlyWhatWasDeletedForUser")
        \cup If(~(attached /\ "R" \in mode) \/ expect = {} => got = {}, "NoDeletionLogWithoutReadOrDeletions")
  ELSE {}

\* ------------------------------------------------------------------ C05 (history part): a party that tracks permissions from the
\* change notices it receives ends up with what the authoritative topic holds: every {pres what=acs} seen inside a group topic,
\* applied to the subject's permissions as the live topic held them BEFORE the step, yields what it holds AFTER the step.
\* ... and no change goes unannounced (Topic.notifySubChange -> presSubsOnline "acs"): when a {sub} / {set sub} changes what the live
\* topic holds for a subject (a subscription that was absent or flagged deleted counts as N/N, which is what its removal announced),
\* every OTHER user's session that stays attached to the topic the ordinary way with A or S in its effective mode - the parties the
\* server addresses the notice to (filterIn = ModeCSharer, excludeUser = subject, skip = the requesting session) - receives a
\* {pres what=acs src=subject} inside the topic.  Without it a tracker keeps N/N for a p2p peer who unsubscribed and came back.
HeldModes(p) == IF p.in /\ ~p.deleted THEN <<M(p.want), M(p.given)>> ELSE <<{}, {}>>
IsSharerIn(S, t, u) == S.cache[t].per[u].in /\ ~S.cache[t].per[u].deleted /\ Eff(S.cache[t].per[u]) \cap {"A", "S"} # {}
M_C05_Announced(pre, a, obs, post) ==
  IF ~IsReq(a) \/ a.a \notin {"Sub", "SetSelf", "SetOther"} THEN {}
  ELSE LET t == a.t IN
  IF ~(pre.cache[t].loaded /\ post.cache[t].loaded) THEN {}
  ELSE UNION {
    LET p0 == pre.cache[t].per[subj]  p1 == post.cache[t].per[subj] IN
    IF ~(p1.in /\ ~p1.deleted) \/ HeldModes(p0) = HeldModes(p1) THEN {}
    ELSE LET rcpt == {x \in AttOf(post.cache[t]) : x \in AttOf(pre.cache[t]) /\ ~x.chan /\ x.s # a.s /\ x.u # subj
                                                     /\ IsSharerIn(pre, t, x.u) /\ IsSharerIn(post, t, x.u)}
         IN If(\A x \in rcpt : \E f \in obs.acs : f.s = x.s /\ f.t = t /\ f.src = subj, "ChangeAnnouncedToAttachedSharers")
    : subj \in Users }

M_C05(pre, a, obs, post) ==
  UNION {
    LET f == ff
        t == f.t
        subj == IF f.src \in Users THEN f.src ELSE SessUser[f.s] IN
    IF ~(pre.cache[t].loaded /\ post.cache[t].loaded) \/ subj \notin Users THEN {}
    ELSE LET p0 == pre.cache[t].per[subj]  p1 == post.cache[t].per[subj]
             \* (a p2p participant who unsubscribed stays cached, flagged deleted: the unsubscription's notice said N/N)
             held == p0.in /\ ~p0.deleted
             w == ApplyMutation(IF held THEN M(p0.want) ELSE None, IF f.want = <<"-">> THEN <<>> ELSE f.want)
             g == ApplyMutation(IF held THEN M(p0.given) ELSE None, IF f.given = <<"-">> THEN <<>> ELSE f.given)
         IN IF ~p1.in \/ p1.deleted THEN {}      \* subscription removed: the notice says N/N, nothing left to track
            ELSE If(w.ok /\ g.ok, "NoticeIsWellFormed")
                 \cup If(w.m = M(p1.want) /\ g.m = M(p1.given), "FollowerOfNoticesMatchesTopic")
    : ff \in obs.acs }
  \cup M_C05_Announced(pre, a, obs, post)

\* ------------------------------------------------------------------ C10 (counter clause) and C14 (symmetry clause) on the projected state
\* (all sessions of the topic-level walks are foreground sessions)
OnlineOk(S) ==
  UNION { LET c == S.cache[t] IN
          IF ~c.loaded THEN {} ELSE
          If(\A u \in Users : c.per[u].in => c.per[u].online >= 0, "OnlineCountNeverNegative")
          \cup If(\A u \in Users : c.per[u].in /\ ~c.per[u].deleted => c.per[u].online = Cardinality({x \in AttOf(c) : x.u = u}), "OnlineCountEqualsAttachedSessions")
          : t \in Topics }
M_C10(pre, a, obs, post) == OnlineOk(post) \ OnlineOk(pre)

Symmetric(S) ==
  If(\A s \in Sessions : \A t \in Topics : (S.sess[s].live /\ t \in M(S.sess[s].subs)) <=> (S.cache[t].loaded /\ s \in AttSess(S.cache[t])),
     "SessionListsTopicIffTopicListsSession")
  \cup If(\A s \in Sessions : ~S.sess[s].live => \A t \in Topics : ~(S.cache[t].loaded /\ s \in AttSess(S.cache[t])), "TerminatedSessionDetachedEverywhere")
M_C14(pre, a, obs, post) ==
  (Symmetric(post) \ Symmetric(pre))
  \cup (IF IsReq(a) /\ a.a \in {"Sub", "Leave", "DelTopic", "NewGrp"} THEN If(obs.nack >= 1, "SubscribeLeaveDeleteAnswered") ELSE {})

Monitors(p, pre, a, obs, post) ==
  CASE p = "C01" -> M_C01(pre, a, obs, post)
    [] p = "C02" -> M_C02(pre, a, obs, post)
    [] p = "C03" -> M_C03(pre, a, obs, post)
    [] p = "C05" -> M_C05(pre, a, obs, post)
    [] p = "C04" -> M_C04(pre, a, obs, post)
    [] p = "C06" -> M_C06(pre, a, obs, post)
    [] p = "C07" -> M_C07(pre, a, obs, post) \cup M_C07_Special(a, obs)
    [] p = "C08" -> M_C08(pre, a, obs, post)
    [] p = "C09" -> M_C09(pre, a, obs, post)
    [] p = "C10" -> M_C10(pre, a, obs, post)
    [] p = "C14" -> M_C14(pre, a, obs, post)
    [] OTHER -> {}

AllProps == {"C01", "C02", "C03", "C04", "C06", "C07", "C08", "C09"}
\* tagged: "C06:ExactlyOneEffectiveOwner"
\* a step on a closed connection sends nothing (the harness skips it): nothing to judge
NotSent(pre, a) == "s" \in DOMAIN a /\ a.s \in Sessions /\ ~pre.sess[a.s].live /\ a.a # "Connect"
Tagged(pre, a, obs, post, props) ==
  IF NotSent(pre, a) THEN {} ELSE UNION {{p \o ":" \o n : n \in Monitors(p, pre, a, obs, post)} : p \in props}
=============================================================================
