--------------------------- MODULE Trace_TopicCore ---------------------------
(***************************************************************************)
(* Conformance of traces recorded from the REAL server (world_trace.ndjson,*)
(* written by the Go World harness) against TopicCore:                     *)
(*   bad = property monitors (TopicMonitors) that are false on the real    *)
(*         observation  (pre-state, request, frames/push receipts,         *)
(*         post-state)                       -> the verdict;               *)
(*   div = components in which the real post-state / reply differs from    *)
(*         Step(pre, request)                -> the binding.               *)
(* Steps are independent given the logged pre- and post-state, so they are *)
(* visited as a 16-ary tree and shared among TLC's workers.                *)
(***************************************************************************)
EXTENDS TopicMonitors, Json, TLC

CONSTANT Props
Trace == ndJsonDeserialize("world_trace.ndjson")
NT == Len(Trace)

VARIABLES cur, bad, div
vars == <<cur, bad, div>>

\* projection of the logged state onto the modelled part (identity on shape, restriction on domain)
ProjCache(c) ==
  IF ~c.loaded THEN Unloaded
  ELSE [loaded |-> TRUE, ischan |-> c.ischan, last |-> c.last, del |-> c.del, owner |-> c.owner, auth |-> c.auth, anon |-> c.anon,
        per |-> [u \in Users |-> [in |-> c.per[u].in, want |-> c.per[u].want, given |-> c.per[u].given, read |-> c.per[u].read,
                                  recv |-> c.per[u].recv, delId |-> c.per[u].delId, online |-> c.per[u].online,
                                  deleted |-> c.per[u].deleted, ischan |-> c.per[u].ischan]],
        att |-> c.att]
Proj(st) ==
  [topics |-> [t \in Topics |-> [exists |-> st.topics[t].exists, ischan |-> st.topics[t].ischan, seq |-> st.topics[t].seq, delId |-> st.topics[t].delId,
                                  owner |-> st.topics[t].owner, auth |-> st.topics[t].auth, anon |-> st.topics[t].anon,
                                  public |-> st.topics[t].public]],
   subs   |-> [t \in Topics |-> [u \in Users |-> [st |-> st.subs[t][u].st, want |-> st.subs[t][u].want, given |-> st.subs[t][u].given,
                                                   read |-> st.subs[t][u].read, recv |-> st.subs[t][u].recv, delId |-> st.subs[t][u].delId]]],
   csubs  |-> [t \in Topics |-> [u \in Users |-> [st |-> st.csubs[t][u].st, want |-> st.csubs[t][u].want, given |-> st.csubs[t][u].given,
                                                   read |-> st.csubs[t][u].read, recv |-> st.csubs[t][u].recv, delId |-> st.csubs[t][u].delId]]],
   msgs   |-> [t \in Topics |-> [i \in DOMAIN st.msgs[t] |-> [seq |-> st.msgs[t][i].seq, from |-> st.msgs[t][i].from,
                                                              delId |-> st.msgs[t][i].delId, content |-> st.msgs[t][i].content]]],
   dlog   |-> [t \in Topics |-> [i \in DOMAIN st.dlog[t] |-> [delId |-> st.dlog[t][i].delId, for |-> st.dlog[t][i]["for"],
                                                              low |-> st.dlog[t][i].low, hi |-> st.dlog[t][i].hi]]],
   cache  |-> [t \in Topics |-> ProjCache(st.cache[t])],
   sess   |-> [s \in Sessions |-> [live |-> st.sess[s].live, subs |-> SelectSeq(st.sess[s].subs, LAMBDA x : x \in Topics)]]]

\* message content is logged as JSON text: "\"c1\"" ; the request carries the bare string
Quoted(c) == "\"" \o c \o "\""

\* a {meta} reply is a successful answer
ReplyCode(rec) == IF "code" \in DOMAIN rec.reply THEN rec.reply.code ELSE 200
Frames(rec, s) == rec.frames[s]
DataFrames(rec, s) == SelectSeq(Frames(rec, s), LAMBDA f : f.k = "data")
ObsReal(rec, k) ==
  LET a == rec.act
      rep == rec.reply
      mine == IF "s" \in DOMAIN a /\ a.s \in Sessions /\ rec.rid # ""
              THEN SelectSeq(Frames(rec, a.s), LAMBDA f : f.k \in {"ctrl", "meta"} /\ f.id = rec.rid) ELSE <<>>
      anyReply == IF "s" \in DOMAIN a /\ a.s \in Sessions
                  THEN SelectSeq(Frames(rec, a.s), LAMBDA f : f.k = "ctrl" /\ f.code >= 300) ELSE <<>>
  IN [code |-> ReplyCode(rec),
      nack |-> IF rec.rid # "" THEN Len(mine) ELSE Len(anyReply),
      data |-> UNION {{[s |-> s, seq |-> DataFrames(rec, s)[i].seq, from |-> DataFrames(rec, s)[i].from,
                        content |-> DataFrames(rec, s)[i].content, topic |-> DataFrames(rec, s)[i].topic,
                        aschan |-> DataFrames(rec, s)[i].aschan] : i \in DOMAIN DataFrames(rec, s)} : s \in Sessions},
      info |-> UNION {{[s |-> s, from |-> Frames(rec, s)[i].from, what |-> Frames(rec, s)[i].what, seq |-> Frames(rec, s)[i].seq,
                        topic |-> Frames(rec, s)[i].topic, src |-> Frames(rec, s)[i].src]
                       : i \in {x \in DOMAIN Frames(rec, s) : Frames(rec, s)[x].k = "info"}} : s \in Sessions},
      pushChan |-> {[channel |-> rec.push[i].channel, ischn |-> rec.push[i].chanIsChn] : i \in {j \in DOMAIN rec.push : rec.push[j].what = "msg"}},
      ndata |-> [s \in Sessions |-> Len(DataFrames(rec, s))],
      push |-> {ToSet(rec.push[i].to) : i \in {j \in DOMAIN rec.push : rec.push[j].what = "msg"}},
      ackSeq |-> IF rep.k = "ctrl" /\ "seq" \in DOMAIN rep.params THEN rep.params.seq ELSE 0,
      afterCrash |-> rec.afterCrash,
      nested |-> rec.nested,
      suspended |-> IF rec.i > 0 /\ "susp" \in DOMAIN Trace[k - 1] THEN ToSet(Trace[k - 1].susp.users) ELSE {},
      sysPre |-> IF rec.i > 0 /\ "sys" \in DOMAIN rec.st.topics THEN Trace[k - 1].st.topics["sys"].seq ELSE 0,
      sysPost |-> IF "sys" \in DOMAIN rec.st.topics THEN rec.st.topics["sys"].seq ELSE 0,
      \* permission-change notices received inside a group topic: [s, t, src (user named, "" = the recipient), want, given (texts)]
      acs |-> UNION {{[s |-> s, t |-> Frames(rec, s)[i].topic, src |-> Frames(rec, s)[i].src,
                       want |-> Frames(rec, s)[i].dacs_want, given |-> Frames(rec, s)[i].dacs_given]
                      : i \in {x \in DOMAIN Frames(rec, s) : Frames(rec, s)[x].k = "pres" /\ Frames(rec, s)[x].what = "acs"
                                                              /\ Frames(rec, s)[x].topic \in Topics}} : s \in Sessions},
      ackDel |-> IF rep.k = "ctrl" /\ "del" \in DOMAIN rep.params THEN rep.params.del ELSE 0,
      delmeta |-> UNION {{[s |-> s, clear |-> Frames(rec, s)[i].del.clear,
                           ids |-> UNION {IdsOf([low |-> Frames(rec, s)[i].del.delseq[j][1], hi |-> Frames(rec, s)[i].del.delseq[j][2]]) :
                                          j \in DOMAIN Frames(rec, s)[i].del.delseq}]
                          : i \in {x \in DOMAIN Frames(rec, s) : Frames(rec, s)[x].k = "meta" /\ "del" \in DOMAIN Frames(rec, s)[x]}} : s \in Sessions}]

\* the request as the model sees it: message content compared in its logged (JSON text) form
ModelAct(a) == a

\* C08, first sentence, judged on the answers themselves: the same {get what=desc} asked by the same session immediately before and
\* immediately after an unload + load of the topic (the Reload composite), with the same rows in the store, gets the same description
\* (message and delete counters, the requester's marks and permissions, default access, public / private / trusted data).
DescView(d) == [seq |-> d.seq, clear |-> d.clear, read |-> d.read, recv |-> d.recv, acs |-> d.acs, defacs |-> d.defacs,
                public |-> d.public, private |-> d.private, trusted |-> d.trusted]
DescAnswers(rec) ==
  LET fr == SelectSeq(Frames(rec, rec.act.s), LAMBDA f : f.k = "meta" /\ f.id = rec.rid /\ "desc" \in DOMAIN f)
  IN [i \in DOMAIN fr |-> DescView(fr[i].desc)]
\* ... and the same for {get what=sub}: per listed subscriber the user, marks, permissions, private data and deleted flag
SubView(e) == [user |-> e.user, read |-> e.read, recv |-> e.recv, clear |-> e.clear, acs |-> e.acs, private |-> e.private, deleted |-> e.deleted]
SubAnswers(rec) ==
  LET fr == SelectSeq(Frames(rec, rec.act.s), LAMBDA f : f.k = "meta" /\ f.id = rec.rid /\ "sub" \in DOMAIN f)
  IN [i \in DOMAIN fr |-> [j \in DOMAIN fr[i].sub |-> SubView(fr[i].sub[j])]]
Undisturbed(rec) == ~rec.faultFired /\ ~rec.nested.fired /\ ~rec.afterCrash
ReloadEquivalence(k) ==
  LET rec == Trace[k] IN
  IF "C08" \notin Props \/ rec.i < 3 \/ rec.act.a # "Get" THEN {}
  ELSE LET mid == Trace[k - 1]  before == Trace[k - 2] IN
       IF mid.act.a # "Reload" \/ mid.act.t # rec.act.t \/ before.act # rec.act \/ rec.rid = "" \/ before.rid = ""
          \/ ~(Undisturbed(rec) /\ Undisturbed(mid) /\ Undisturbed(before))
          \/ StoreOf(Proj(before.st)) # StoreOf(Proj(rec.st)) \/ Proj(before.st).sess # Proj(rec.st).sess
       THEN {}
       ELSE If(DescAnswers(before) = DescAnswers(rec), "C08:DescriptionAnswerSameAfterReload")
            \cup If(SubAnswers(before) = SubAnswers(rec), "C08:SubscriberListSameAfterReload")

Check(k) ==
  LET rec == Trace[k] IN
  IF rec.i = 0 THEN {} ELSE
  Tagged(Proj(Trace[k - 1].st), ModelAct(rec.act), ObsReal(rec, k), Proj(rec.st), Props) \cup ReloadEquivalence(k)

Diverge(k) ==
  LET rec == Trace[k] IN
  IF rec.i = 0 THEN (IF Proj(rec.st) # InitState THEN {"init"} ELSE {})
  ELSE IF ~Modelled(rec.act) \/ rec.faultFired \/ rec.nested.fired THEN {}     \* outcome under an injected store fault is judged by the monitors only
  ELSE LET pre == Proj(Trace[k - 1].st)
           post == Proj(rec.st)
           r == Step(pre, ModelAct(rec.act))
       IN IF r.out.code = -1 THEN {}       \* request path not modelled
          ELSE (IF r.st.topics # post.topics THEN {"topics"} ELSE {})
               \cup (IF r.st.subs # post.subs THEN {"subs"} ELSE {})
               \cup (IF r.st.csubs # post.csubs THEN {"csubs"} ELSE {})
               \cup (IF r.st.msgs # post.msgs THEN {"msgs"} ELSE {})
               \cup (IF r.st.dlog # post.dlog THEN {"dlog"} ELSE {})
               \cup (IF r.st.cache # post.cache THEN {"cache"} ELSE {})
               \cup (IF r.st.sess # post.sess THEN {"sess"} ELSE {})
               \cup (IF r.out.code # -2 /\ r.out.code # ReplyCode(rec) THEN {"code"} ELSE {})

Init == cur = 0 /\ bad = {} /\ div = {}
Next == \E j \in 1..16 :
          LET k == 16 * cur + j IN
            /\ k <= NT
            /\ cur' = k
            /\ bad' = Check(k)
            /\ div' = Diverge(k)
=============================================================================
