--------------------------------- MODULE Tx ---------------------------------
(***************************************************************************)
(* C18 design check (U1): TLC explores the transaction machine of TxCore   *)
(* step by step, for every program of a universe x every configuration x  *)
(* every position k of a single fault x every fault kind, and checks the   *)
(* four invariants that state the property on the model.                   *)
(*                                                                         *)
(* Universe = "generic": every single-segment program of up to MaxStmts    *)
(*   steps over a small alphabet (write, read, handled duplicate, PREPARE, *)
(*   statement with its own context), ending in COMMIT or in an early      *)
(*   error exit, with/without a context on the transaction, with/without a *)
(*   named error result; multi-write programs always use a transaction     *)
(*   (the as-intended discipline), single statements may auto-commit.      *)
(*   GenShadow = TRUE additionally allows any step to assign its error to  *)
(*   a shadowing variable (the mutation that must be caught).              *)
(* Universe = "table": the concrete programs of the adapter methods and    *)
(*   mapper compositions (TxCore!Prog) over a finite set of branches.      *)
(* Dialect = "mysql": database/sql + go-sql-driver semantics and the MySQL *)
(*   adapter's programs; "pg": pgx + PostgreSQL semantics (aborted         *)
(*   transaction blocks, savepoints, no rollback-on-cancel) and the        *)
(*   PostgreSQL adapter's programs.                                        *)
(***************************************************************************)
EXTENDS TxCore

CONSTANTS Universe, MaxStmts, GenShadow, Dialect

VARIABLE s

\* ------------------------------------------------------------------ generic programs
Alphabet == IF Dialect = "mysql"
            THEN {St("UPDATE", "t"), St("SELECT", "t"), Dup("INSERT", "t"), Pr("INSERT", "t"), Own(St("UPDATE", "u"))}
            ELSE {St("UPDATE", "t"), St("SELECT", "t"), Dup("INSERT", "t"), Cl(St("INSERT", "u"), <<REL>>), REL}
\* (statements whose error the code ignores are not part of the as-intended discipline in general: TLC shows that
\*  SAVEPOINT; <ignored failure>; ROLLBACK TO SAVEPOINT; COMMIT swallows the failure.  The savepoint idiom of
\*  createSubscription, where ROLLBACK TO is only issued after a duplicate key, is checked in the "table" universe.)
Alphabet2 == Alphabet \cup (IF GenShadow THEN {Shadow(a) : a \in Alphabet} ELSE {})
StepSeqs == UNION {[1..n -> Alphabet2] : n \in 0..MaxStmts}
\* an auto-commit statement that succeeded cannot be followed by an error exit (it is already durable)
NoTxErrAfterWrite ==
  {OpOf(<<[tx |-> FALSE, ctx |-> FALSE, steps |-> st, end |-> "errexit", named |-> FALSE]>>) :
      st \in {x \in StepSeqs : Len(x) = 1 /\ x[1].e = "STMT" /\ x[1].ok /\ IsWrite(x[1].verb)}}
GenericOps ==
  ({OpOf(<<[tx |-> TRUE, ctx |-> c, steps |-> st, end |-> e, named |-> nm]>>) :
       st \in StepSeqs, c \in BOOLEAN, e \in {"commit", "errexit"}, nm \in BOOLEAN}
   \cup {OpOf(<<[tx |-> FALSE, ctx |-> FALSE, steps |-> st, end |-> e, named |-> FALSE]>>) :
       st \in {x \in StepSeqs : Len(x) <= 1 /\ \A k \in DOMAIN x : x[k].e = "STMT" /\ ~x[k].ign /\ x[k].verb \notin {"SAVEPOINT", "ROLLBACK_TO"}},
       e \in {"commit", "errexit"}})
  \ NoTxErrAfterWrite

\* ------------------------------------------------------------------ the concrete table
P0 == [tags |-> -1, dup |-> 0, hard |-> FALSE, state |-> FALSE, reset |-> FALSE, add |-> 0, rem |-> 0, subs |-> <<>>,
       ranges |-> 0, mode |-> "-", aff |-> 1, rows |-> 0, chan |-> FALSE]
Bit == {0, 1}
SubSeqs(n) == UNION {[1..m -> Bit \X Bit] : m \in 1..n}
TableCases ==
       {<<"UserCreate", [P0 EXCEPT !.tags = tg, !.dup = d]>> : tg \in 0..2, d \in 0..2}
  \cup {<<"UserDelete", [P0 EXCEPT !.hard = h]>> : h \in BOOLEAN}
  \cup {<<"UserUpdate", [P0 EXCEPT !.state = st, !.tags = tg, !.dup = d]>> : st \in BOOLEAN, tg \in -1..2, d \in 0..2}
  \cup {<<"UserUpdateTags", [P0 EXCEPT !.reset = r, !.add = a, !.rem = m, !.dup = d]>> : r \in BOOLEAN, a \in 0..2, m \in 0..1, d \in 0..2}
  \cup {<<"TopicCreate", [P0 EXCEPT !.tags = tg, !.dup = d]>> : tg \in 0..2, d \in 0..2}
  \cup {<<"TopicCreateP2P", [P0 EXCEPT !.subs = <<a, b>>]>> : a \in Bit \X Bit, b \in Bit \X Bit}
  \cup {<<"TopicShare", [P0 EXCEPT !.subs = ss]>> : ss \in SubSeqs(2)}
  \cup {<<"TopicDelete", [P0 EXCEPT !.hard = h]>> : h \in BOOLEAN}
  \cup {<<"TopicUpdate", [P0 EXCEPT !.tags = tg, !.dup = d]>> : tg \in -1..2, d \in 0..2}
  \cup {<<"SubsUpdate", P0>>, <<"DeviceUpsert", P0>>}
  \cup {<<"SubsDelete", [P0 EXCEPT !.aff = a]>> : a \in 0..1}
  \cup {<<"SubsDelForUser", [P0 EXCEPT !.hard = h]>> : h \in BOOLEAN}
  \cup {<<"MessageDeleteList", [P0 EXCEPT !.mode = m, !.ranges = r]>> : m \in {"all", "soft", "hard"}, r \in 1..2}
  \cup {<<"DeviceDelete", [P0 EXCEPT !.aff = a]>> : a \in 0..1}
  \cup {<<"CredUpsert", [P0 EXCEPT !.mode = m]>> : m \in {"done", "done_dupe", "validated", "updated", "insert", "insert_dupe"}}
  \cup {<<"CredDel", [P0 EXCEPT !.mode = m, !.aff = a]>> : m \in {"all", "one"}, a \in 0..1}
  \cup {<<"FileFinishUpload", [P0 EXCEPT !.mode = m]>> : m \in {"success", "failure"}}
  \cup {<<"FileDeleteUnused", [P0 EXCEPT !.rows = r]>> : r \in 0..1}
  \cup {<<"FileLinkAttachments", [P0 EXCEPT !.mode = m]>> : m \in {"msg", "topic", "user", "malformed"}}
  \cup {<<"Single", [P0 EXCEPT !.mode = m]>> : m \in {"AuthAddRecord", "AuthUpdRecord", "MessageSave", "PCacheUpsert", "CredConfirm"}}
  \cup {<<"Users.Create", [P0 EXCEPT !.tags = tg]>> : tg \in 0..2}
  \cup {<<"Topics.Create", [P0 EXCEPT !.tags = tg, !.subs = <<<<0, 1>>>>]>> : tg \in 0..2}
  \cup {<<"Messages.DeleteList", [P0 EXCEPT !.mode = m, !.ranges = r]>> : m \in {"all", "soft", "hard"}, r \in 1..2}
TableOps == {Prog(c[1], c[2], Dialect) : c \in TableCases}

Ops == IF Universe = "generic" THEN {[o EXCEPT !.dialect = Dialect] : o \in GenericOps} ELSE TableOps

\* ------------------------------------------------------------------ the state machine
Init == \E op \in Ops, cfg \in Configs :
          \/ s = InitState(op, cfg, 0, "none")
          \/ \E fk \in 1..NRoundTrips(op), kind \in FaultKinds \ {"none"} : s = InitState(op, cfg, fk, kind)

Begin         == s.pc = "call" /\ CurSeg(s).tx /\ s' = Step(s)
CallNoTx      == s.pc = "call" /\ ~CurSeg(s).tx /\ s' = Step(s)
MoreStmts     == s.cq # <<>> \/ (~s.failing /\ s.i <= Len(CurSeg(s).steps))
Stmt          == s.pc = "step" /\ MoreStmts /\ s.open /\ s' = Step(s)
StmtOutsideTx == s.pc = "step" /\ MoreStmts /\ ~s.open /\ s' = Step(s)
StmtsDone     == s.pc = "step" /\ ~MoreStmts /\ s' = Step(s)
Commit        == s.pc = "end" /\ CurSeg(s).end = "commit" /\ s' = Step(s)
ErrExit       == s.pc = "end" /\ CurSeg(s).end = "errexit" /\ s' = Step(s)
Rollback      == s.pc = "defer" /\ s.errVar /\ s.sqlTx /\ s' = Step(s)
Return        == s.pc = "defer" /\ ~(s.errVar /\ s.sqlTx) /\ s' = Step(s)
Mapper        == s.pc = "next" /\ s' = Step(s)

Next == Begin \/ CallNoTx \/ Stmt \/ StmtOutsideTx \/ StmtsDone \/ Commit \/ ErrExit \/ Rollback \/ Return \/ Mapper
Spec == Init /\ [][Next]_s

\* ------------------------------------------------------------------ invariants (the property on the model)
InvAllOrNothing     == AllOrNothing(s)
InvNoOpenTxAtReturn == NoOpenTxAtReturn(s)
InvFailureReported  == FailureReported(s)
InvNoWriteOutsideTx == NoWriteOutsideTx(s)
\* bookkeeping sanity: the machine and the pure Run() agree, positions never exceed the program's round trips + 1
InvRunAgrees        == s.pc = "done" => Run(s.op, s.cfg, s.fk, s.fkind) = s
InvNeverStuck       == s.pc # "done" => ENABLED Next
=============================================================================
