------------------------------- MODULE TxCore -------------------------------
(***************************************************************************)
(* C18 — multi-row store updates are all-or-nothing.                       *)
(*                                                                         *)
(* The transaction discipline of the SQL adapters, as pure operators (no   *)
(* variables) so that the same definitions drive                           *)
(*   - the design check  (Tx.tla: TLC explores the machine step by step),  *)
(*   - the binding       (Monitor_C18.tla: Run(...) predicts the driver    *)
(*                        level trace of a real adapter call).             *)
(*                                                                         *)
(* A store OPERATION is a sequence of SEGMENTS, one per adapter call; a    *)
(* segment is an abstract PROGRAM: BEGIN, a list of statements (PREPARE    *)
(* and Exec/Query round trips, some of which hit a duplicate key that the  *)
(* code handles), and an end: COMMIT, or an early exit with an error       *)
(* ("not found", "duplicate").  The code shape that is transcribed:        *)
(*                                                                         *)
(*     ctx, cancel := a.getContextForTx(); defer cancel()                  *)
(*     tx, err := a.db.BeginTxx(ctx, nil); if err != nil { return err }    *)
(*     defer func() { if err != nil { tx.Rollback() } }()                  *)
(*     if _, err = tx.Exec(...); err != nil { return err }  ...            *)
(*     return tx.Commit()                                                  *)
(*                                                                         *)
(* plus the part of database/sql that matters: a Tx begun with a           *)
(* cancellable context is rolled back by the library when that context is  *)
(* cancelled or expires; a failed COMMIT ends the Tx; statements on a      *)
(* finished Tx fail without reaching the driver.                           *)
(*                                                                         *)
(* Faults (one per run, at the k-th driver round trip; BEGIN, PREPARE,     *)
(* statements and COMMIT are counted): err, connloss, outage, deadline,    *)
(* rowserr — see harness/server/db/sqlfake and harness/server/db/pgfake.   *)
(*                                                                         *)
(* Two dialects share the program table and the mapper level: "mysql"      *)
(* (above) and "pg": the PostgreSQL adapter on pgx, where a failed         *)
(* statement aborts the transaction block, calls on a closed connection    *)
(* fail without a round trip, and nothing rolls back on cancel().          *)
(*                                                                         *)
(* As-built deviations (TRUE = what the code does today):                  *)
(*   DEV_CredUpsertShadowedErr  CredUpsert: `res, err := tx.Exec(...)`     *)
(*        inside `if !cred.Done {` declares a NEW err; when that statement *)
(*        fails the deferred handler sees nil and does not roll back.      *)
(*        (MySQL adapter; DEV_PgCredUpsertShadowedErr: the same line in    *)
(*        the PostgreSQL adapter.)                                         *)
(*   DEV_UsersCreateCompensates Users.Create = UserCreate tx, TopicShare   *)
(*        tx, and a best-effort UserDelete(hard) tx when the second fails. *)
(*   DEV_TopicsCreateTwoTx      Topics.Create = TopicCreate tx + TopicShare*)
(*        tx, no compensation.                                             *)
(*   DEV_DeleteListThreeTx      Messages.DeleteList = MessageDeleteList tx,*)
(*        TopicUpdate tx, SubsUpdate tx, no compensation.                  *)
(* With a DEV_ constant FALSE the operation is one transaction.            *)
(***************************************************************************)
EXTENDS Integers, Sequences, FiniteSets, TLC

CONSTANTS DEV_CredUpsertShadowedErr, DEV_PgCredUpsertShadowedErr, DEV_UsersCreateCompensates, DEV_TopicsCreateTwoTx, DEV_DeleteListThreeTx

WriteVerbs == {"INSERT", "UPDATE", "DELETE", "REPLACE"}
IsWrite(verb) == verb \in WriteVerbs
FaultKinds == {"none", "err", "connloss", "outage", "deadline", "rowserr"}
Configs == {"notimeout", "timeout"}   \* sql_timeout unset / set in the adapter configuration

\* ------------------------------------------------------------------ programs
\* A step: a round trip inside a segment.  ok = FALSE: the statement hits a duplicate key that the code handles.
St(verb, tbl)  == [e |-> "STMT", verb |-> verb, tbl |-> tbl, ok |-> TRUE, q |-> verb = "SELECT", own |-> FALSE, shadow |-> FALSE,
                   ign |-> FALSE, cleanup |-> <<>>]
Dup(verb, tbl) == [St(verb, tbl) EXCEPT !.ok = FALSE]
Pr(verb, tbl)  == [St(verb, tbl) EXCEPT !.e = "PREP", !.q = FALSE]
Own(st)        == [st EXCEPT !.own = TRUE]        \* runs under its own context (ExecContext(ctx, ...))
Shadow(st)     == [st EXCEPT !.shadow = TRUE]     \* its error is assigned to a shadowing variable
Ign(st)        == [st EXCEPT !.ign = TRUE]        \* its error is logged or not looked at; the code goes on
Cl(st, c)      == [st EXCEPT !.cleanup = c]       \* statements the code still issues (errors ignored) after this one failed
Rep(n, st)     == [i \in 1..n |-> st]

\* A fragment: steps, and whether the code leaves with an error right after them.
F(steps)       == [steps |-> steps, exit |-> FALSE]
X(steps)       == [steps |-> steps, exit |-> TRUE]
Then(a, b)     == IF a.exit THEN a ELSE [steps |-> a.steps \o b.steps, exit |-> b.exit]

\* A segment: one adapter call.  tx: runs in a transaction; ctx: the transaction is begun with the (possibly
\* deadline-carrying) context; named: the function has a named error result, so `return tx.Commit()` sets it.
Seg(tx, ctx, steps, end) == [tx |-> tx, ctx |-> ctx, steps |-> steps, end |-> end, named |-> FALSE]
TxSeg(fr)      == Seg(TRUE, TRUE, fr.steps, IF fr.exit THEN "errexit" ELSE "commit")
Auto(verb, tbl) == Seg(FALSE, FALSE, <<Own(St(verb, tbl))>>, "commit")   \* a.db.ExecContext(ctx, one statement)
OpOf(segs)     == [segs |-> segs, comp |-> <<>>, compFrom |-> 0, dialect |-> "mysql"]
Dialects       == {"mysql", "pg"}                 \* database/sql + go-sql-driver semantics / pgx + PostgreSQL semantics

\* The fragments below take the dialect d: "mysql" transcribes server/db/mysql/adapter.go, "pg" server/db/postgres/adapter.go.

\* addTags (mysql:794 PREPARE once, one INSERT per tag; postgres:646 one Exec per tag, no PREPARE).
\* A duplicate is skipped (ignoreDups) or is ErrDuplicate.  NB postgres: the skipped duplicate has already aborted the transaction.
AddTags(d, tbl, n, dup, ignore) ==
  LET pre == IF d = "mysql" THEN <<Pr("INSERT", tbl)>> ELSE <<>> IN
  IF n <= 0 THEN F(<<>>)
  ELSE IF dup = 0 \/ dup > n THEN F(pre \o Rep(n, St("INSERT", tbl)))
  ELSE IF ignore THEN F(pre \o [i \in 1..n |-> IF i = dup THEN Dup("INSERT", tbl) ELSE St("INSERT", tbl)])
  ELSE X(pre \o Rep(dup - 1, St("INSERT", tbl)) \o <<Dup("INSERT", tbl)>>)

\* createSubscription (mysql:1492): INSERT, on duplicate UPDATE; owner => UPDATE topics.
\* postgres:1350 brackets the INSERT with SAVEPOINT / RELEASE SAVEPOINT (ROLLBACK TO SAVEPOINT on duplicate); the errors of
\* these three statements are only logged; a non-duplicate INSERT error still issues RELEASE SAVEPOINT before returning.
SP  == Ign(St("SAVEPOINT", ""))
RBT == Ign(St("ROLLBACK_TO", ""))
REL == Ign(St("RELEASE", ""))
CreateSub(d, x) ==
  LET own == IF x[2] # 0 THEN <<St("UPDATE", "topics")>> ELSE <<>> IN
  IF d = "mysql"
  THEN F((IF x[1] # 0 THEN <<Dup("INSERT", "subscriptions"), St("UPDATE", "subscriptions")>> ELSE <<St("INSERT", "subscriptions")>>) \o own)
  ELSE F((IF x[1] # 0 THEN <<SP, Cl(Dup("INSERT", "subscriptions"), <<REL>>), RBT, St("UPDATE", "subscriptions")>>
                      ELSE <<SP, Cl(St("INSERT", "subscriptions"), <<REL>>), REL>>) \o own)
RECURSIVE CreateSubs(_, _)
CreateSubs(d, subs) == IF subs = <<>> THEN F(<<>>) ELSE Then(CreateSub(d, Head(subs)), CreateSubs(d, Tail(subs)))

TopicCreateFr(d, tags, dup) == Then(F(<<St("INSERT", "topics")>>), AddTags(d, "topictags", tags, dup, FALSE))
UserCreateFr(d, tags, dup)  == Then(F(<<St("INSERT", "users")>>), AddTags(d, "usertags", tags, dup, FALSE))

UserDeleteFr(hard) ==
  IF hard THEN F(<<St("DELETE", "devices"), St("DELETE", "subscriptions"), St("DELETE", "dellog"), St("DELETE", "dellog"),
                   St("DELETE", "messages"), St("DELETE", "subscriptions"), St("DELETE", "topictags"), St("DELETE", "topics"),
                   St("DELETE", "auth"), St("DELETE", "credentials"), St("DELETE", "usertags"), St("DELETE", "users")>>)
  ELSE F(<<St("UPDATE", "subscriptions"), St("UPDATE", "subscriptions"), St("UPDATE", "topics"), St("UPDATE", "topics"),
           St("UPDATE", "subscriptions"), St("UPDATE", "users")>>)

UserUpdateFr(d, state, tags, dup) ==
  Then(F(<<St("UPDATE", "users")>> \o (IF state THEN <<St("UPDATE", "topics"), St("UPDATE", "topics")>> ELSE <<>>)),
       IF tags < 0 THEN F(<<>>) ELSE Then(F(<<St("DELETE", "usertags")>>), AddTags(d, "usertags", tags, dup, FALSE)))

\* removeTags: mysql:824 one DELETE.  postgres:668 passes the argument slice as ONE argument (`tx.Exec(ctx, sql, args)`),
\* pgx rejects the call ("expected n arguments, got 1") before anything is executed: an early error exit.
RemoveTags(d, rem) == IF rem <= 0 THEN F(<<>>) ELSE IF d = "mysql" THEN F(<<St("DELETE", "usertags")>>) ELSE X(<<>>)
\* postgres:1194 does not look at rows.Err() of the SELECT; its failure is only noticed by the next statement.
UserUpdateTagsFr(d, reset, add, rem, dup) ==
  Then(IF reset THEN Then(F(<<St("DELETE", "usertags")>>), AddTags(d, "usertags", add, dup, FALSE))
       ELSE Then(AddTags(d, "usertags", add, dup, TRUE), RemoveTags(d, rem)),
       F(<<IF d = "pg" THEN Ign(St("SELECT", "usertags")) ELSE St("SELECT", "usertags"), St("UPDATE", "users")>>))

\* TopicDelete: postgres:1929 soft delete passes the argument slice as one argument as well: always an early error exit.
TopicDeleteFr(d, hard) ==
  IF hard THEN F(<<St("DELETE", "subscriptions"), St("DELETE", "dellog"), St("DELETE", "messages"),
                   St("DELETE", "topictags"), St("DELETE", "topics")>>)
  ELSE IF d = "pg" THEN X(<<>>)
  ELSE F(<<St("UPDATE", "subscriptions"), St("UPDATE", "topics")>>)

TopicUpdateFr(d, tags, dup) ==
  Then(F(<<St("UPDATE", "topics")>>),
       IF tags < 0 THEN F(<<>>) ELSE Then(F(<<St("DELETE", "topictags")>>), AddTags(d, "topictags", tags, dup, FALSE)))

\* messageDeleteList (mysql:2689 with PREPARE, postgres:2588 without)
MsgDelFr(d, mode, ranges) ==
  IF mode = "all" THEN F(<<St("DELETE", "dellog"), St("DELETE", "messages")>>)
  ELSE F((IF d = "mysql" THEN <<Pr("INSERT", "dellog")>> ELSE <<>>) \o Rep(ranges, St("INSERT", "dellog"))
         \o (IF mode = "hard" THEN <<St("DELETE", "filemsglinks"), St("UPDATE", "messages")>> ELSE <<>>))

\* CredUpsert (mysql:2928, postgres:2827; the shadowed err is in both)
CredUpsertFr(d, mode) ==
  LET sh(st) == IF (d = "mysql" /\ DEV_CredUpsertShadowedErr) \/ (d = "pg" /\ DEV_PgCredUpsertShadowedErr) THEN Shadow(st) ELSE st
      pre == <<St("SELECT", "credentials"), St("UPDATE", "credentials"), sh(St("UPDATE", "credentials"))>>
  IN CASE mode = "done"        -> F(<<St("DELETE", "credentials"), St("INSERT", "credentials")>>)
       [] mode = "done_dupe"   -> X(<<St("DELETE", "credentials"), Dup("INSERT", "credentials")>>)
       [] mode = "validated"   -> X(<<St("SELECT", "credentials")>>)
       [] mode = "updated"     -> F(pre)
       [] mode = "insert"      -> F(pre \o <<St("INSERT", "credentials")>>)
       [] mode = "insert_dupe" -> X(pre \o <<Dup("INSERT", "credentials")>>)

\* credDel (mysql:3009, postgres:2908).  NB case 2.2 (`count >= 0`) always ends with ErrNotFound.
CredDelFr(mode, aff) ==
  IF aff > 0 THEN F(<<St("DELETE", "credentials")>>)
  ELSE IF mode = "all" THEN X(<<St("DELETE", "credentials")>>)
  ELSE X(<<St("DELETE", "credentials"), St("UPDATE", "credentials")>>)

FileLinkFr(mode) ==
  F((IF mode = "msg" THEN <<>> ELSE <<St("DELETE", "filemsglinks")>>) \o <<St("INSERT", "filemsglinks")>>)

SingleStmt(mode) ==
  CASE mode = "AuthAddRecord"        -> Auto("INSERT", "auth")
    [] mode = "AuthDelScheme"        -> Auto("DELETE", "auth")
    [] mode = "AuthDelAllRecords"    -> Auto("DELETE", "auth")
    [] mode = "AuthUpdRecord"        -> Auto("UPDATE", "auth")
    [] mode = "MessageSave"          -> Auto("INSERT", "messages")
    [] mode = "TopicUpdateOnMessage" -> Auto("UPDATE", "topics")
    [] mode = "TopicOwnerChange"     -> Auto("UPDATE", "topics")
    [] mode = "CredConfirm"          -> Auto("UPDATE", "credentials")
    [] mode = "CredFail"             -> Auto("UPDATE", "credentials")
    [] mode = "FileStartUpload"      -> Auto("INSERT", "fileuploads")
    [] mode = "PCacheUpsert"         -> Auto("REPLACE", "kvmeta")
    [] mode = "PCacheDelete"         -> Auto("DELETE", "kvmeta")
    [] mode = "PCacheExpire"         -> Auto("DELETE", "kvmeta")

\* Merge the fragments of several adapter calls into ONE transaction (the as-intended composition).
OneTx(frs) == LET RECURSIVE cat(_)
                  cat(s) == IF s = <<>> THEN F(<<>>) ELSE Then(Head(s), cat(Tail(s)))
              IN OpOf(<<TxSeg(cat(frs))>>)

\* The program of operation `op` on the branch described by the parameter record p (see the Go harness), MySQL shape.
ProgD(op, p, d) ==
  CASE op = "UserCreate"      -> OpOf(<<TxSeg(UserCreateFr(d, p.tags, p.dup))>>)
    [] op = "UserDelete"      -> OpOf(<<TxSeg(UserDeleteFr(p.hard))>>)
    [] op = "UserUpdate"      -> OpOf(<<TxSeg(UserUpdateFr(d, p.state, p.tags, p.dup))>>)
    [] op = "UserUpdateTags"  -> OpOf(<<TxSeg(UserUpdateTagsFr(d, p.reset, p.add, p.rem, p.dup))>>)
    [] op = "TopicCreate"     -> OpOf(<<TxSeg(TopicCreateFr(d, p.tags, p.dup))>>)
    [] op = "TopicCreateP2P"  -> OpOf(<<TxSeg(Then(CreateSubs(d, p.subs), TopicCreateFr(d, 0, 0)))>>)
    [] op = "TopicShare"      -> OpOf(<<TxSeg(CreateSubs(d, p.subs))>>)
    [] op = "TopicDelete"     -> OpOf(<<TxSeg(TopicDeleteFr(d, p.hard))>>)
    [] op = "TopicUpdate"     -> OpOf(<<TxSeg(TopicUpdateFr(d, p.tags, p.dup))>>)
    [] op = "SubsUpdate"      -> OpOf(<<TxSeg(F(<<St("UPDATE", "subscriptions")>>))>>)
    [] op = "SubsDelete"      -> \* mysql: a.db.Begin(): no context on the transaction; the first statement has its own
         OpOf(<<[TxSeg(IF p.aff > 0 THEN F(<<Own(St("UPDATE", "subscriptions")), St("DELETE", "dellog")>>)
                       ELSE X(<<Own(St("UPDATE", "subscriptions"))>>)) EXCEPT !.ctx = FALSE]>>)
    [] op = "SubsDelForUser"  -> OpOf(<<TxSeg(F(<<St(IF p.hard THEN "DELETE" ELSE "UPDATE", "subscriptions")>>))>>)
    [] op = "MessageDeleteList" -> OpOf(<<[TxSeg(MsgDelFr(d, p.mode, p.ranges)) EXCEPT !.named = TRUE]>>)
    [] op = "DeviceUpsert"    -> OpOf(<<TxSeg(F(<<St("DELETE", "devices"), St("INSERT", "devices")>>))>>)
    [] op = "DeviceDelete"    -> OpOf(<<TxSeg(IF p.aff > 0 THEN F(<<St("DELETE", "devices")>>) ELSE X(<<St("DELETE", "devices")>>))>>)
    [] op = "CredUpsert"      -> OpOf(<<TxSeg(CredUpsertFr(d, p.mode))>>)
    [] op = "CredDel"         -> OpOf(<<TxSeg(CredDelFr(p.mode, p.aff))>>)
    [] op = "FileFinishUpload" -> \* transaction and statements share one context
         OpOf(<<TxSeg(F(<<Own(St(IF p.mode = "success" THEN "UPDATE" ELSE "DELETE", "fileuploads"))>>))>>)
    [] op = "FileDeleteUnused" -> OpOf(<<TxSeg(F(<<St("SELECT", "fileuploads")>> \o (IF p.rows > 0 THEN <<St("DELETE", "fileuploads")>> ELSE <<>>)))>>)
    [] op = "FileLinkAttachments" ->
         IF p.mode = "malformed" THEN OpOf(<<Seg(FALSE, FALSE, <<>>, "errexit")>>)   \* rejected before BEGIN
         ELSE OpOf(<<TxSeg(FileLinkFr(p.mode))>>)
    [] op = "Single"          -> OpOf(<<SingleStmt(p.mode)>>)
    \* ---- mapper level (server/store/store.go)
    [] op = "Users.Create" ->      \* store.go:291
         IF DEV_UsersCreateCompensates
         THEN [OpOf(<<TxSeg(UserCreateFr(d, p.tags, 0)), TxSeg(CreateSubs(d, <<<<0, 0>>, <<0, 0>>>>))>>)
                 EXCEPT !.comp = <<TxSeg(UserDeleteFr(TRUE))>>, !.compFrom = 2]
         ELSE OneTx(<<UserCreateFr(d, p.tags, 0), CreateSubs(d, <<<<0, 0>>, <<0, 0>>>>)>>)
    [] op = "Topics.Create" ->     \* store.go:531
         IF p.subs = <<>> THEN OpOf(<<TxSeg(TopicCreateFr(d, p.tags, 0))>>)      \* no owner: no subscription is created
         ELSE IF DEV_TopicsCreateTwoTx
         THEN OpOf(<<TxSeg(TopicCreateFr(d, p.tags, 0)), TxSeg(CreateSubs(d, p.subs))>>)
         ELSE OneTx(<<TopicCreateFr(d, p.tags, 0), CreateSubs(d, p.subs)>>)
    [] op = "Messages.DeleteList" ->   \* store.go:715
         IF p.mode = "all" THEN OpOf(<<[TxSeg(MsgDelFr(d, "all", 0)) EXCEPT !.named = TRUE]>>)
         ELSE IF DEV_DeleteListThreeTx
         THEN OpOf(<<[TxSeg(MsgDelFr(d, p.mode, p.ranges)) EXCEPT !.named = TRUE],
                     TxSeg(TopicUpdateFr(d, -1, 0)), TxSeg(F(<<St("UPDATE", "subscriptions")>>))>>)
         ELSE OneTx(<<MsgDelFr(d, p.mode, p.ranges), TopicUpdateFr(d, -1, 0), F(<<St("UPDATE", "subscriptions")>>)>>)

Prog(op, p, d) == [ProgD(op, p, d) EXCEPT !.dialect = d]

\* ------------------------------------------------------------------ the machine
\* pc: call -> step* -> end -> defer -> next -> (call ... | done)
InitState(op, cfg, fk, fkind) ==
  [op |-> op, cfg |-> cfg, fk |-> fk, fkind |-> fkind,
   pc |-> "call", mode |-> "main", seg |-> 1, i |-> 1, pos |-> 0,
   open |-> FALSE,      \* the server has an open transaction on the current connection
   sqlTx |-> FALSE,     \* database/sql's Tx object is live (connection checked out)
   dead |-> FALSE, down |-> FALSE, expired |-> FALSE,
   aborted |-> FALSE,   \* pg: the transaction block is in the aborted state (every statement fails until ROLLBACK [TO SAVEPOINT])
   sp |-> FALSE,        \* pg: a savepoint exists
   cq |-> <<>>,         \* pg: statements the code still issues after a failure before it returns (errors ignored)
   failing |-> FALSE, fshadow |-> FALSE,   \* pg: a statement failed, return once cq is drained
   errVar |-> FALSE,    \* the function's `err` variable as the deferred handler sees it
   retErr |-> FALSE,    \* what the current adapter call returns
   evs |-> <<>>,        \* predicted driver trace: <<event, verb, table, ok>>
   pend |-> {},         \* successful writes in the open transaction: [pos, verb, tbl, comp]
   dur |-> {},          \* durable writes (committed, or auto-committed outside a tx)
   outside |-> 0,       \* successful writes executed outside a transaction
   hit |-> FALSE,       \* the fault was injected
   hitFail |-> FALSE,   \* ... and made a round trip fail
   leakedOpen |-> 0,    \* transactions left open on a live connection at return
   leakedConn |-> 0,    \* Tx objects never finished (connection never returned to the pool)
   opErr |-> FALSE]

Emit(s, e, verb, tbl, ok) == [s EXCEPT !.evs = Append(@, <<e, verb, tbl, ok>>)]
CurSegs(s) == IF s.mode = "main" THEN s.op.segs ELSE s.op.comp
CurSeg(s)  == CurSegs(s)[s.seg]
KindAt(s, p) == IF s.fk = p THEN s.fkind ELSE "none"
Loses(k) == k \in {"connloss", "outage"}

\* database/sql rolls a live Tx back when its context is cancelled or expires
EnvRollback(s) ==
  IF s.sqlTx THEN [Emit(s, "ROLLBACK", "", "", ~s.dead) EXCEPT !.open = FALSE, !.sqlTx = FALSE, !.pend = {}] ELSE s

\* Begin
DoCall(s) ==
  LET sg == CurSeg(s)
      fresh == [s EXCEPT !.i = 1, !.errVar = FALSE, !.retErr = FALSE, !.expired = FALSE, !.dead = FALSE,
                         !.open = FALSE, !.sqlTx = FALSE, !.pend = {}]
  IN IF s.down /\ (sg.tx \/ sg.steps # <<>>) THEN [fresh EXCEPT !.retErr = TRUE, !.pc = "next"]   \* no connection: nothing reaches the driver
     ELSE IF ~sg.tx THEN [fresh EXCEPT !.pc = "step"]
     ELSE LET p == s.pos + 1
              k == KindAt(s, p)
              dl == k = "deadline" /\ sg.ctx /\ s.cfg = "timeout"
              fails == k \in {"err", "connloss", "outage"} \/ dl
              s1 == [Emit(fresh, "BEGIN", "", "", ~fails) EXCEPT !.pos = p, !.hit = @ \/ fails, !.hitFail = @ \/ fails]
          IN IF fails THEN [s1 EXCEPT !.retErr = TRUE, !.pc = "next", !.down = @ \/ k = "outage"]
             ELSE [s1 EXCEPT !.open = TRUE, !.sqlTx = TRUE, !.pc = "step"]

Fail(s, st) == [s EXCEPT !.errVar = IF st.shadow THEN @ ELSE TRUE, !.retErr = TRUE, !.pc = "defer"]

\* Stmt(i, ok|fail) and StmtOutsideTx
DoStep(s) ==
  LET sg == CurSeg(s) IN
  IF s.i > Len(sg.steps) THEN [s EXCEPT !.pc = "end"]
  ELSE
    LET st == sg.steps[s.i] IN
    IF s.expired THEN Fail(s, st)      \* sql.ErrTxDone, no round trip
    ELSE
      LET p == s.pos + 1
          k == KindAt(s, p)
          dl == k = "deadline" /\ s.cfg = "timeout" /\ (st.own \/ (sg.tx /\ sg.ctx))
          failsNow == k \in {"err", "connloss", "outage"} \/ (k = "rowserr" /\ st.q) \/ (dl /\ st.own)
          okEv == ~failsNow /\ st.ok
          w == okEv /\ st.e = "STMT" /\ IsWrite(st.verb)
          wr == [pos |-> p, verb |-> st.verb, tbl |-> st.tbl, comp |-> s.mode = "comp"]
          s1 == [Emit(s, st.e, st.verb, st.tbl, okEv) EXCEPT
                    !.pos = p, !.hit = @ \/ failsNow \/ dl, !.hitFail = @ \/ failsNow,
                    !.pend = IF w /\ s.open THEN @ \cup {wr} ELSE @,
                    !.dur = IF w /\ ~s.open THEN @ \cup {wr} ELSE @,
                    !.outside = IF w /\ ~s.open THEN @ + 1 ELSE @]
          s2 == IF Loses(k) THEN [s1 EXCEPT !.dead = TRUE, !.open = FALSE, !.pend = {}, !.down = @ \/ k = "outage"] ELSE s1
          \* the transaction's context expired while the statement ran: database/sql rolls back when it returns
          s3 == IF dl /\ sg.tx /\ sg.ctx THEN EnvRollback([s2 EXCEPT !.expired = TRUE]) ELSE s2
      IN IF failsNow THEN Fail(s3, st) ELSE [s3 EXCEPT !.i = @ + 1]

\* Commit, or the early exit with an error
DoEnd(s) ==
  LET sg == CurSeg(s) IN
  IF sg.end = "errexit" THEN [s EXCEPT !.errVar = TRUE, !.retErr = TRUE, !.pc = "defer"]
  ELSE IF ~sg.tx THEN [s EXCEPT !.pc = "defer"]
  ELSE IF s.expired THEN [s EXCEPT !.retErr = TRUE, !.errVar = @ \/ sg.named, !.pc = "defer"]  \* Commit() returns ctx.Err()
  ELSE LET p == s.pos + 1
           k == KindAt(s, p)
           fails == k \in {"err", "connloss", "outage"}
           late == k = "deadline" /\ sg.ctx /\ s.cfg = "timeout"      \* completes late, but completes
           s1 == [Emit(s, "COMMIT", "", "", ~fails) EXCEPT !.pos = p, !.sqlTx = FALSE, !.open = FALSE, !.pend = {},
                     !.hit = @ \/ fails \/ late, !.hitFail = @ \/ fails, !.pc = "defer"]
       IN IF fails THEN [s1 EXCEPT !.retErr = TRUE, !.errVar = @ \/ sg.named, !.dead = Loses(k), !.down = @ \/ k = "outage"]
          ELSE [s1 EXCEPT !.dur = @ \cup s.pend]

\* Rollback (the deferred handler) and Return
DoDefer(s) ==
  LET sg == CurSeg(s)
      s1 == IF s.errVar /\ s.sqlTx
            THEN [Emit(s, "ROLLBACK", "", "", ~s.dead) EXCEPT !.open = FALSE, !.sqlTx = FALSE, !.pend = {}] ELSE s
      \* `defer cancel()`: only a context with a timeout is cancellable
      s2 == IF sg.tx /\ sg.ctx /\ s.cfg = "timeout" THEN EnvRollback(s1) ELSE s1
      s3 == IF s2.sqlTx THEN [s2 EXCEPT !.leakedConn = @ + 1, !.leakedOpen = @ + (IF s2.open THEN 1 ELSE 0),
                                        !.sqlTx = FALSE, !.open = FALSE, !.pend = {}] ELSE s2
  IN [s3 EXCEPT !.pc = "next"]

\* the mapper: next adapter call, compensation, or return
DoNext(s) ==
  IF s.mode = "comp" THEN
       IF s.seg < Len(s.op.comp) THEN [s EXCEPT !.seg = @ + 1, !.pc = "call"] ELSE [s EXCEPT !.pc = "done", !.opErr = TRUE]
  ELSE IF s.retErr THEN
       IF s.op.comp # <<>> /\ s.seg >= s.op.compFrom THEN [s EXCEPT !.mode = "comp", !.seg = 1, !.pc = "call"]
       ELSE [s EXCEPT !.pc = "done", !.opErr = TRUE]
  ELSE IF s.seg < Len(s.op.segs) THEN [s EXCEPT !.seg = @ + 1, !.pc = "call"]
  ELSE [s EXCEPT !.pc = "done"]

\* ------------------------------------------------------------------ the machine, PostgreSQL / pgx semantics
\* Differences that matter: (1) every call carries the context, a deadline closes the connection (pgx), nothing rolls back
\* on cancel(); (2) any failed statement aborts the transaction block; (3) calls on a closed connection fail without a
\* round trip; (4) COMMIT of an aborted block answers ROLLBACK and pgx reports ErrTxCommitRollback.
PgLoses(s, k) == k \in {"connloss", "outage"} \/ (k = "deadline" /\ s.cfg = "timeout")

PgDoCall(s) ==
  LET sg == CurSeg(s)
      fresh == [s EXCEPT !.i = 1, !.errVar = FALSE, !.retErr = FALSE, !.expired = FALSE, !.dead = FALSE, !.open = FALSE,
                         !.sqlTx = FALSE, !.pend = {}, !.aborted = FALSE, !.sp = FALSE, !.cq = <<>>, !.failing = FALSE, !.fshadow = FALSE]
  IN IF s.down /\ (sg.tx \/ sg.steps # <<>>) THEN [fresh EXCEPT !.retErr = TRUE, !.pc = "next"]
     ELSE IF ~sg.tx THEN [fresh EXCEPT !.pc = "step"]
     ELSE LET p == s.pos + 1
              k == KindAt(s, p)
              fails == k = "err" \/ PgLoses(s, k)
              s1 == [Emit(fresh, "BEGIN", "", "", ~fails) EXCEPT !.pos = p, !.hit = @ \/ fails, !.hitFail = @ \/ fails]
          IN IF fails THEN [s1 EXCEPT !.retErr = TRUE, !.pc = "next", !.down = @ \/ k = "outage"]   \* pgx kills the connection
             ELSE [s1 EXCEPT !.open = TRUE, !.sqlTx = TRUE, !.pc = "step"]

PgDoStep(s) ==
  LET sg == CurSeg(s)
      inCq == s.cq # <<>>
  IN IF ~inCq /\ s.failing THEN Fail(s, [shadow |-> s.fshadow])
     ELSE IF ~inCq /\ s.i > Len(sg.steps) THEN [s EXCEPT !.pc = "end"]
     ELSE
       LET st == IF inCq THEN Head(s.cq) ELSE sg.steps[s.i]
           adv(x) == IF inCq THEN [x EXCEPT !.cq = Tail(@)] ELSE [x EXCEPT !.i = @ + 1]
           onErr(x) == IF inCq \/ st.ign THEN adv(x)
                       ELSE [x EXCEPT !.cq = st.cleanup, !.failing = TRUE, !.fshadow = st.shadow]
       IN IF s.dead THEN onErr(s)       \* closed connection (or expired context): no round trip
          ELSE
            LET p == s.pos + 1
                k == KindAt(s, p)
                lose == PgLoses(s, k)
                spErr == (st.verb \in {"ROLLBACK_TO", "RELEASE"} /\ ~s.sp) \/ (st.verb = "SAVEPOINT" /\ ~s.open)
                abErr == s.aborted /\ st.verb # "ROLLBACK_TO"
                hard == k = "err" \/ lose \/ abErr \/ spErr       \* fails for a reason the code does not handle
                fails == hard \/ ~st.ok
                w == ~fails /\ IsWrite(st.verb)
                wr == [pos |-> p, verb |-> st.verb, tbl |-> st.tbl, comp |-> s.mode = "comp"]
                s1 == [Emit(s, "STMT", st.verb, st.tbl, ~fails) EXCEPT
                         !.pos = p, !.hit = @ \/ k = "err" \/ lose, !.hitFail = @ \/ k = "err" \/ lose,
                         !.pend = IF lose THEN {} ELSE IF w /\ s.open THEN @ \cup {wr} ELSE @,
                         !.dur = IF w /\ ~s.open THEN @ \cup {wr} ELSE @,
                         !.outside = IF w /\ ~s.open THEN @ + 1 ELSE @,
                         !.aborted = IF lose THEN FALSE ELSE IF fails /\ s.open THEN TRUE
                                     ELSE IF st.verb = "ROLLBACK_TO" THEN FALSE ELSE @,
                         !.sp = IF ~fails /\ st.verb = "SAVEPOINT" THEN TRUE ELSE IF ~fails /\ st.verb = "RELEASE" THEN FALSE ELSE @,
                         !.dead = @ \/ lose, !.open = IF lose THEN FALSE ELSE @, !.down = @ \/ k = "outage"]
            IN IF ~hard THEN adv(s1)         \* success, or the duplicate that the code handles
               ELSE onErr(s1)

PgDoEnd(s) ==
  LET sg == CurSeg(s) IN
  IF sg.end = "errexit" THEN [s EXCEPT !.errVar = TRUE, !.retErr = TRUE, !.pc = "defer"]
  ELSE IF ~sg.tx THEN [s EXCEPT !.pc = "defer"]
  ELSE IF s.dead THEN [s EXCEPT !.retErr = TRUE, !.errVar = @ \/ sg.named, !.sqlTx = FALSE, !.pc = "defer"]
  ELSE LET p == s.pos + 1
           k == KindAt(s, p)
           lose == PgLoses(s, k)
           fails == k = "err" \/ lose
           rb == ~fails /\ s.aborted        \* the server answers ROLLBACK
           s1 == [Emit(s, "COMMIT", "", "", ~fails /\ ~rb) EXCEPT !.pos = p, !.sqlTx = FALSE, !.open = FALSE, !.aborted = FALSE,
                     !.pend = {}, !.hit = @ \/ fails, !.hitFail = @ \/ fails, !.dead = lose, !.down = @ \/ k = "outage", !.pc = "defer"]
       IN IF fails \/ rb THEN [s1 EXCEPT !.retErr = TRUE, !.errVar = @ \/ sg.named]
          ELSE [s1 EXCEPT !.dur = @ \cup s.pend]

PgDoDefer(s) ==
  LET s1 == IF s.errVar /\ s.sqlTx
            THEN IF s.dead THEN [s EXCEPT !.sqlTx = FALSE]      \* Rollback on a closed connection: no round trip, connection discarded
                 ELSE [Emit(s, "ROLLBACK", "", "", TRUE) EXCEPT !.open = FALSE, !.aborted = FALSE, !.sqlTx = FALSE, !.pend = {}]
            ELSE s
      s3 == IF s1.sqlTx THEN [s1 EXCEPT !.leakedConn = @ + 1, !.leakedOpen = @ + (IF s1.open THEN 1 ELSE 0),
                                        !.sqlTx = FALSE, !.open = FALSE, !.pend = {}] ELSE s1
  IN [s3 EXCEPT !.pc = "next"]

Step(s) ==
  LET pg == s.op.dialect = "pg" IN
  CASE s.pc = "call"  -> IF pg THEN PgDoCall(s) ELSE DoCall(s)
    [] s.pc = "step"  -> IF pg THEN PgDoStep(s) ELSE DoStep(s)
    [] s.pc = "end"   -> IF pg THEN PgDoEnd(s) ELSE DoEnd(s)
    [] s.pc = "defer" -> IF pg THEN PgDoDefer(s) ELSE DoDefer(s)
    [] s.pc = "next"  -> DoNext(s)

RECURSIVE RunFrom(_)
RunFrom(s) == IF s.pc = "done" THEN s ELSE RunFrom(Step(s))
Run(op, cfg, fk, fkind) == RunFrom(InitState(op, cfg, fk, fkind))

\* ------------------------------------------------------------------ what an operation is supposed to write
SegWrites(sg) == Cardinality({i \in DOMAIN sg.steps : sg.steps[i].e = "STMT" /\ sg.steps[i].ok /\ IsWrite(sg.steps[i].verb)})
RECURSIVE SumW(_)
SumW(segs) == IF segs = <<>> THEN 0 ELSE SegWrites(Head(segs)) + SumW(Tail(segs))
NW(op) == SumW(op.segs)
SegRoundTrips(sg) == (IF sg.tx THEN 1 ELSE 0) + Len(sg.steps) + (IF sg.tx /\ sg.end = "commit" THEN 1 ELSE 0)
RECURSIVE SumRT(_)
SumRT(segs) == IF segs = <<>> THEN 0 ELSE SegRoundTrips(Head(segs)) + SumRT(Tail(segs))
NRoundTrips(op) == SumRT(op.segs)
Succeeds(op) == \A i \in DOMAIN op.segs : op.segs[i].end = "commit"

\* ------------------------------------------------------------------ the property, on a finished run
\* What is left in the database: the durable writes of the operation proper that no durable compensating
\* DELETE on the same table (issued by the mapper's clean-up after the failure) removes again.
DurMain(s) == {d \in s.dur : ~d.comp}
DurComp(s) == {d \in s.dur : d.comp}
NetEffect(s) == {d \in DurMain(s) : ~\E c \in DurComp(s) : c.verb = "DELETE" /\ c.tbl = d.tbl /\ c.pos > d.pos}
FullEffect(s) == Cardinality(DurMain(s)) = NW(s.op) /\ Succeeds(s.op) /\ DurComp(s) = {}
\* either every write the fault-free operation makes is durable, or none is
AllOrNothing(s)     == s.pc = "done" => (FullEffect(s) \/ NetEffect(s) = {})
NoOpenTxAtReturn(s) == s.pc = "done" => (s.leakedOpen = 0 /\ s.leakedConn = 0)
FailureReported(s)  == s.pc = "done" => ((s.hitFail => s.opErr) /\ (~s.opErr => FullEffect(s)))
NoWriteOutsideTx(s) == NW(s.op) >= 2 => s.outside = 0
=============================================================================
