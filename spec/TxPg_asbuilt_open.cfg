\* sanity: the as-built table MUST violate NoOpenTxAtReturn (CredUpsert shadowed err)
CONSTANTS
  DEV_CredUpsertShadowedErr = TRUE
  DEV_PgCredUpsertShadowedErr = TRUE
  DEV_UsersCreateCompensates = FALSE
  DEV_TopicsCreateTwoTx = FALSE
  DEV_DeleteListThreeTx = FALSE
  Universe = "table"
  MaxStmts = 1
  Dialect = "pg"
  GenShadow = FALSE
SPECIFICATION Spec
INVARIANTS InvNoOpenTxAtReturn
CHECK_DEADLOCK FALSE
