\* U1, generic universe (thorough), as-intended, PostgreSQL/pgx semantics discipline
CONSTANTS
  DEV_CredUpsertShadowedErr = FALSE
  DEV_PgCredUpsertShadowedErr = FALSE
  DEV_UsersCreateCompensates = FALSE
  DEV_TopicsCreateTwoTx = FALSE
  DEV_DeleteListThreeTx = FALSE
  Universe = "generic"
  MaxStmts = 4
  Dialect = "pg"
  GenShadow = FALSE
SPECIFICATION Spec
INVARIANTS InvAllOrNothing InvNoOpenTxAtReturn InvFailureReported InvNoWriteOutsideTx InvRunAgrees InvNeverStuck
CHECK_DEADLOCK FALSE
