\* sanity: the as-built mapper compositions MUST violate AllOrNothing
CONSTANTS
  DEV_CredUpsertShadowedErr = FALSE
  DEV_PgCredUpsertShadowedErr = FALSE
  DEV_UsersCreateCompensates = TRUE
  DEV_TopicsCreateTwoTx = TRUE
  DEV_DeleteListThreeTx = TRUE
  Universe = "table"
  MaxStmts = 1
  Dialect = "mysql"
  GenShadow = FALSE
SPECIFICATION Spec
INVARIANTS InvAllOrNothing
CHECK_DEADLOCK FALSE
