\* sanity: generic programs with shadowed error variables MUST violate NoOpenTxAtReturn
CONSTANTS
  DEV_CredUpsertShadowedErr = FALSE
  DEV_PgCredUpsertShadowedErr = FALSE
  DEV_UsersCreateCompensates = FALSE
  DEV_TopicsCreateTwoTx = FALSE
  DEV_DeleteListThreeTx = FALSE
  Universe = "generic"
  MaxStmts = 1
  Dialect = "mysql"
  GenShadow = TRUE
SPECIFICATION Spec
INVARIANTS InvNoOpenTxAtReturn
CHECK_DEADLOCK FALSE
