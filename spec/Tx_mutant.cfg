\* sanity: generic programs with shadowed error variables MUST violate NoOpenTxAtReturn
CONSTANTS
  DEV_CredUpsertShadowedErr = FALSE
  DEV_UsersCreateCompensates = FALSE
  DEV_TopicsCreateTwoTx = FALSE
  DEV_DeleteListThreeTx = FALSE
  Universe = "generic"
  MaxStmts = 1
  GenShadow = TRUE
SPECIFICATION Spec
INVARIANTS InvNoOpenTxAtReturn
CHECK_DEADLOCK FALSE
