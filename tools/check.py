#!/usr/bin/env python3
"""Driver: python3 tools/check.py Cxx [--tier quick|thorough] [--replay file]"""
import argparse, importlib, os, sys, traceback
sys.path.insert(0, os.path.dirname(os.path.abspath(__file__)))
import vlib


def main():
    ap = argparse.ArgumentParser()
    ap.add_argument("prop")
    ap.add_argument("--tier", default=os.environ.get("VERIF_TIER", "quick"), choices=["quick", "thorough"])
    ap.add_argument("--replay", default=None)
    a = ap.parse_args()
    seed = int(os.environ.get("VERIF_SEED", "1") or 1)
    ctx = vlib.Ctx(a.prop, a.tier, seed)
    ctx.replay = a.replay
    try:
        mod = importlib.import_module("props." + a.prop.lower())
        rc = mod.run(ctx)
    except vlib.Infra as e:
        vlib.log("INFRA-FAILURE property=%s: %s" % (a.prop, e))
        rc = 2
    except Exception:
        traceback.print_exc()
        vlib.log("INFRA-FAILURE property=%s: unexpected exception in the checker" % a.prop)
        rc = 2
    sys.exit(rc)


if __name__ == "__main__":
    main()
