# Source of truth for MANIFEST.json (regenerate with: python3 tools/mkmanifest.py)
HOOK_COMMITS = ["0b048fb"]
ENGINES = [
    {"name": "check.py", "path": "/verif/tools/check.py", "serves_properties": [],
     "kind_free_text": "driver: TLC on spec/, Go overlay harness on /repo, TLC monitors on recorded traces"},
]
CLAIMED = {}
CLAIMED["C05"] = dict(
    category="model_checking",
    text="TLC exhausts the as-intended algebra (AccessMode.tla/AcsTracker.tla: all 257x257 notified changes, all 256x256 pairs for the delta/meet laws, all strings <=4 over 8 symbols) and then evaluates the law monitors (Monitor_C05.tla) on vectors recorded from the REAL functions over the same exhaustively enumerated domain (all 256 modes in text/JSON/DB form, all strings <=3 (quick) / <=4 (thorough) over 15 symbols plus structured multi-chunk deltas through ParseAcs/UnmarshalText/ApplyDelta/ApplyMutation, all mode pairs through Delta+Apply, every (old,new) change through the real notifySubChange -> updateAcsFromPresMsg). Finite domain, enumerated completely in thorough: the right level for a pure algebra.",
    note="Trusted: Go stdlib json/sql glue; the reference operators of AccessMode.tla (binding compares every real output with them: zero divergences required on the unchanged tree). Notification path is exercised at function level (Topic.notifySubChange / proxy updateAcsFromPresMsg); the World-level follower check over whole request histories is part of the TopicCore traces.",
    technique="TLA+ reference algebra model-checked by TLC; TLC-evaluated law monitors over exhaustively recorded real-function vectors (model-based test per input)",
)
_ALL = ["C%02d" % i for i in range(1, 21)]
NOT_APPLICABLE = {p: "check not built yet in this round (work in progress; the technique applies, see DESIGN.md §5)" for p in _ALL if p not in CLAIMED}
