# Source of truth for MANIFEST.json (regenerate with: python3 tools/mkmanifest.py)
HOOK_COMMITS = []
ENGINES = [
    {"name": "check.py", "path": "/verif/tools/check.py", "serves_properties": [],
     "kind_free_text": "driver: TLC on spec/, Go overlay harness on /repo, TLC monitors on recorded traces"},
]
CLAIMED = {}
_ALL = ["C%02d" % i for i in range(1, 21)]
NOT_APPLICABLE = {p: "check not built yet in this round (work in progress; the technique applies, see DESIGN.md §5)" for p in _ALL if p not in CLAIMED}
