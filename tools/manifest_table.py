# Source of truth for MANIFEST.json (regenerate with: python3 tools/mkmanifest.py)
HOOK_COMMITS = ["0b048fb", "fe520f6"]
ENGINES = [
    {"name": "check.py", "path": "/verif/tools/check.py", "serves_properties": [],
     "kind_free_text": "driver: TLC on spec/, Go overlay harness on /repo, TLC monitors on recorded traces"},
]
CLAIMED = {}
CLAIMED["C05"] = dict(
    category="model_checking",
    text="TLC exhausts the as-intended algebra (AccessMode.tla/AcsTracker.tla: all 257x257 notified changes, all 256x256 pairs for the delta/meet laws, all strings <=4 over 8 symbols) and then evaluates the law monitors (Monitor_C05.tla) on vectors recorded from the REAL functions over the same exhaustively enumerated domain (all 256 modes in text/JSON/DB form, all strings <=3 (quick) / <=4 (thorough) over 15 symbols plus structured multi-chunk deltas through ParseAcs/UnmarshalText/ApplyDelta/ApplyMutation, all mode pairs through Delta+Apply, every (old,new) change through the real notifySubChange -> updateAcsFromPresMsg). Finite domain, enumerated completely in thorough: the right level for a pure algebra.",
    note="Trusted: Go stdlib json/sql glue; the reference operators of AccessMode.tla (binding compares every real output with them: zero divergences required on the unchanged tree). Notification path is exercised at function level (Topic.notifySubChange / proxy updateAcsFromPresMsg); the World-level follower check over whole request histories is part of the TopicCore traces.",
    technique="TLA+ reference algebra model-checked by TLC; TLC-evaluated law monitors over exhaustively recorded real-function vectors (model-based test per input)",
)

_TOPIC_NOTE = ("Trusted: memadp (in-memory adapter written from the MySQL adapter's SQL; the SQL itself is not executed); requests are issued one at a time and the real server is run to quiescence after each (probe round-trips through hub, topic and user-cache actors); group topics on a single node; the TopicCore model (zero divergences between Step(pre, request) and the real post-state are required on the unchanged tree and reported otherwise).")
def _topic(pid, what):
    CLAIMED[pid] = dict(
        category="model_checking",
        text=("TLC checks the property's monitors (spec/TopicMonitors.tla) on every transition of the as-intended TopicCore model (exhaustive, small constants), generates behaviours from the model (one regression counterexample per named deviation DEV_* plus seeded random walks), the Go World replays them into the REAL hub/topic/session/store code over an in-memory adapter, and TLC evaluates the same monitors on every recorded step (pre-state rows and live-topic cache, request, frames, push receipts, post-state) and compares the real post-state with Step(pre, request). " + what),
        note=_TOPIC_NOTE,
        technique="TLA+ model (TopicCore) checked by TLC; TLC-generated behaviours replayed into the real server; TLC-evaluated monitors + Step-conformance on recorded traces",
    )
_topic("C01", "Monitors: acknowledged id = previous stored id + 1, recipients and store show the acknowledged id, no duplicates or gaps among stored ids, counters never decrease, live counter covers stored messages (across unload/reload).")
_topic("C02", "Monitors: recipient set = attached sessions of readers (minus the publisher under noecho), one copy each, content/author/id unaltered, push receipt addressed to subscribers with R and P.")
_topic("C03", "Monitors: 202 iff attached and W in want/\\given; a rejected publish gets an error code and changes neither store nor live topic and reaches nobody.")
_topic("C06", "Monitors: exactly one effective owner in the store after every step, live topic and topic row know that owner, others cannot change the owner's subscription, ownership leaves only by an accepted transfer, owner cannot unsubscribe, only the owner deletes the topic or changes public/default access, O is granted only by the owner.")
_topic("C07", "Monitors: given changes only by approver/owner (or admin self-raise without O/D, or the strip at transfer), want only by its user, invitations need sharer (default access unless admin), re-subscription restores the previous grant, first subscription gets the default grant, subscriber limit, no attachment without J in given.")
_topic("C08", "Monitors: at the step where it first breaks, every live-topic field (ids, default access, subscribers, permissions, marks, owner) equals what a reload would compute from the rows; a request answered with an error leaves the store unchanged. Reload (idle unload through the real timer + re-subscribe) is part of the generated behaviours.")
_topic("C09", "Monitors: 0<=read<=recv<=last id in store and live topic (reported where first broken), marks never decrease, marks move only by the user's own publish or note with R, notes are never answered.")

CLAIMED["C12"] = dict(
    category="model_checking",
    text="TLC exhausts the as-intended Auth models (token verdict function with attacker-chosen fields/signatures, reset-code automaton over all right/wrong/issue sequences, basic-auth account table over case families, API-key classes) and then evaluates the property monitors (Monitor_C12.tla) on outcomes recorded from the REAL authenticators: every single-bit flip / truncation / extension / splice / foreign key / other serial / expiry of real tokens (also through authHttpRequest), TLC-generated guess sequences against the real code authenticator over the in-memory persistent cache, login case families against the real basic authenticator (bcrypt), API-key byte-string classes against checkAPIKey with keys from the real keygen.",
    note="Trusted: HMAC-SHA256 and bcrypt (a signature is an injective function of key and bytes); memadp for auth records and persistent cache; concurrent guesses against one code and store faults during the attempt counter update are not explored.",
    technique="TLA+ Auth models checked by TLC; TLC-generated sequences + enumerated mutation classes run on the real authenticators; TLC-evaluated monitors on recorded outcomes",
)
CLAIMED["C18"] = dict(
    category="model_checking",
    text="TLC exhausts the transaction machine (Tx.tla/TxCore.tla: every statement program up to 3-4 statements x every failing position x fault kind, both database/sql and pgx semantics, plus the concrete program table of all 20 transactional adapter methods) and then checks every statement/transaction trace recorded from the REAL MySQL and PostgreSQL adapters (fake database/sql driver; fake PostgreSQL backend on pgproto3) with one fault injected at every round trip (BEGIN, PREPARE, each statement, COMMIT; error, connection loss, result-set error, deadline) for every branch of every transactional method, and the store-level compositions Users.Create / Topics.Create / Messages.DeleteList: failing statement => ROLLBACK and no COMMIT, error returned, no transaction left open, no write outside BEGIN..COMMIT. Exhaustive over operations x fault positions: the quantifier of the property.",
    note="Trusted: the database honours BEGIN/COMMIT/ROLLBACK (effects inside a transaction are not executed: no SQL engine offline); the fake drivers' canned results steer each branch; MongoDB/RethinkDB adapters are outside the claim.",
    technique="TLA+ transaction machine checked by TLC; single-fault enumeration over the real SQL adapters through fake drivers; TLC-evaluated monitors + program conformance on recorded statement traces",
)
CLAIMED["C19"] = dict(
    category="model_checking",
    text="TLC checks Impl(q) = Sem(q) (transcribed parseSearchQuery automaton vs. declarative grammar) for ALL strings up to length 5-10 over three small alphabets, the laws of the grammar, and the tag state machine (immutable/masked namespaces x {set tags} sequences); the Go recorder runs the REAL parseSearchQuery / rewriteTag / normalizeTags / restrictedTagsEqual / filterRestrictedTags / Topic.replySetTags / fnd query handler on the same exhaustive domains (real e-mail, phone validators and basic authenticator), and TLC evaluates the property monitors and the Impl-conformance on every recorded vector.",
    note="Trusted: libphonenumber is tabulated for two numbers; adapter-side FindUsers/FindTopics honouring activeOnly is not executed (the argument reaching the store is checked); runes outside the modelled alphabets are covered only by seeded random strings.",
    technique="TLA+ reference semantics + transcribed automaton checked by TLC; exhaustive short-string enumeration through the real functions; TLC-evaluated monitors on recorded vectors",
)

_topic("C04", "Pure part: TLC checks the transcribed RangeSorter.Normalize against the set semantics for ALL sorted lists of <=3 ranges over ids 0..6, and the same laws on the output of the REAL sort+Normalize for every list (all triples in thorough). Stateful part, monitors: a delete hides exactly the union of the listed ranges (clipped to existing ids; hi=0/hi=low = single id) for the requester (soft) or erases it for everyone (hard), never an unlisted id, hard without D degrades to soft, soft needs R, every accepted delete gets the next transaction number, rejected deletes change nothing; {get data} returns exactly the visible messages in [since,before) (newest `limit`), with the stored content and author, to the requester only; {get del} covers exactly the ids deleted for that user.")
CLAIMED["C20"] = dict(
    category="model_checking",
    text="TLC exhausts a scaled codec (Codec.tla with 1- and 2-byte ids: all ids, all pairs, all short texts) for round trips, injectivity, 'invalid text decodes to zero' and the p2p-name laws, and enumerates the message-shape lattice (MsgShapes.tla: every set of <=2-3 optional fields per client/server message kind, pairwise coverage proven); the Go recorders run the REAL Uid codecs, topic-name functions and the JSON vs protobuf paths (pbCliDeserialize after a real wire marshal, pbServSerialize) on boundary/random 64-bit ids, every malformed-text class, id pairs and every generated shape; TLC evaluates the strict (as-intended) laws on the recorded outputs field by field and the as-built conformance.",
    note="Trusted: stdlib encoding/json, base64, base32 and google.golang.org/protobuf; the JSON<->protobuf field correspondence written in MsgShapes.tla (the recorder refuses to run if a protobuf field of a covered message is unmapped); reverse converters (pbCliSerialize/pbServDeserialize) are recorded but not judged; 64-bit id space is sampled (boundaries + seeded random), the algorithm shape is exhausted at 1-2 bytes.",
    technique="TLA+ reference codec + message-shape lattice checked by TLC; enumerated vectors through the real codecs and pb/JSON converters; TLC-evaluated monitors on recorded outputs",
)

CLAIMED["C16"] = dict(
    category="model_checking",
    text="TLC exhausts the Files model (uploads/links/disk/GC: gate over every method x key class/placement x credential class/placement x size x sign-up flag; content kinds x URL shapes x injected failures; upload/link/delete/GC life cycles for <=3 uploads, 2 messages, 2 topics, 2 users) against the property clauses, generates as-built histories, and the Go recorder drives the REAL largeFileReceive/largeFileServe (httptest, real fs media handler on a scratch directory, real checkAPIKey with keygen keys, real authenticators, memadp) over the same domains and the generated histories (link calls through the real store mapper, GC through store.Files.DeleteUnused with a controlled clock); TLC evaluates the clauses on every recorded step (HTTP status/headers/body hash, file rows, links, directory listing) and the conformance with the model.",
    note="Trusted: which uploads FileDeleteUnused selects and the link cascades on message/topic/user deletion are memadp's reading of the adapter contract (no SQL executed); call sites of the link functions in topic.go/init_topic.go/user.go are not driven (the mapper functions are called with the same arguments); S3 handler, Range/conditional requests and cluster setups are not exercised.",
    technique="TLA+ Files model checked by TLC; enumerated requests + TLC-generated histories against the real HTTP handlers; TLC-evaluated clauses + model conformance on recorded steps",
)

CLAIMED["C17"] = dict(
    category="model_checking",
    text="Ring: TLC checks the transcribed Ring.Add/Get/Signature (RingRef.tla, arbitrary hash function) for ALL hash assignments over small hash spaces and 1..4 nodes x 2 replicas (order independence, totality, minimal movement, signature equal iff same ring); the Go recorder injects the same hash tables and seeded/default-CRC32 rings into the REAL ringhash and the real Cluster.rehash / Route / TopicMaster signature gate; TLC evaluates the laws and the conformance on the recorded outputs. Election: TLC model-checks Election.tla (one action per Cluster.run case and per step of sendHealthChecks/electLeader; lossy, reordering, duplicating RPC network with at most one outcome per call) exhaustively for 3 nodes and by simulation for 4-5 (OneLeaderPerTerm, OneVotePerTerm, TermMonotone, LeaderHasMajorityOfConfigured, HealthAdopts, StaleIgnored, MinorityLeaderStopsServing), generates schedules, and 3-5 REAL Cluster values (real run goroutines, real electLeader/sendHealthChecks/Vote/Health handlers, real net/rpc clients over an in-process wire the harness controls) are driven through them; TLC evaluates the laws on the recorded (node, term, leader, votes, ring) observations and follows every trace with Step(recorded event).",
    note="Trusted: hash/crc32; a ring is identified with its member set in the election model (justified by the ring half); the ticker dispatch of Cluster.run, gob encoding and real TCP, node restarts (the property speaks of nodes that kept their state) are not exercised; 4-5 node clusters are simulated, not exhausted.",
    technique="TLA+ RingRef + Election models checked by TLC; TLC-generated hash tables and RPC schedules driven into the real ring and real Cluster loops; TLC-evaluated laws + step-by-step trace following",
)

_ALL = ["C%02d" % i for i in range(1, 21)]
NOT_APPLICABLE = {p: "check not built yet in this round (work in progress; the technique applies, see DESIGN.md §5)" for p in _ALL if p not in CLAIMED}
