# Source of truth for MANIFEST.json (regenerate with: python3 tools/mkmanifest.py)
HOOK_COMMITS = ["0b048fb"]
ENGINES = [
    {"name": "check.py", "path": "/verif/tools/check.py", "serves_properties": [],
     "kind_free_text": "driver: TLC on spec/, Go overlay harness on /repo, TLC monitors on recorded traces"},
]
CLAIMED = {}
CLAIMED["C05"] = dict(
    category="model_checking",
    text="TLC exhausts the as-intended algebra (AccessMode.tla/AcsTracker.tla: all 257x257 notified changes, all 256x256 pairs for the delta/meet laws, all strings <=4 over 8 symbols) and then evaluates the law monitors (Monitor_C05.tla) on vectors recorded from the REAL functions over the same exhaustively enumerated domain (all 256 modes in text/JSON/DB form, all strings <=3 (quick) / <=4 (thorough) over 15 symbols plus structured multi-chunk deltas through ParseAcs/UnmarshalText/ApplyDelta/ApplyMutation, all mode pairs through Delta+Apply, every (old,new) change through the real notifySubChange -> updateAcsFromPresMsg). Finite domain, enumerated completely in thorough: the right level for a pure algebra.",
    note="Trusted: Go stdlib json/sql glue; the reference operators of AccessMode.tla (binding compares every real output with them: zero divergences required on the unchanged tree). Notification path is exercised at function level (Topic.notifySubChange / proxy updateAcsFromPresMsg); the World-level follower check over whole request histories is part of the TopicCore traces.",
    technique="TLA+ reference algebra model-checked by TLC; TLC-evaluated law monitors over exhaustively recorded real-function vectors (model-based test per input)",
)

_TOPIC_NOTE = ("Trusted: memadp (in-memory adapter written from the MySQL adapter's SQL; the SQL itself is not executed); requests are issued one at a time and the real server is run to quiescence after each (probe round-trips through hub, topic and user-cache actors); group topics on a single node; the TopicCore model (zero divergences between Step(pre, request) and the real post-state are required on the unchanged tree and reported otherwise).")
def _topic(pid, what):
    CLAIMED[pid] = dict(
        category="model_checking",
        text=("TLC checks the property's monitors (spec/TopicMonitors.tla) on every transition of the as-intended TopicCore model (exhaustive, small constants), generates behaviours from the model (one regression counterexample per named deviation DEV_* plus seeded random walks), the Go World replays them into the REAL hub/topic/session/store code over an in-memory adapter, and TLC evaluates the same monitors on every recorded step (pre-state rows and live-topic cache, request, frames, push receipts, post-state) and compares the real post-state with Step(pre, request). " + what),
        note=_TOPIC_NOTE,
        technique="TLA+ model (TopicCore) checked by TLC; TLC-generated behaviours replayed into the real server; TLC-evaluated monitors + Step-conformance on recorded traces",
    )
_topic("C01", "Monitors: acknowledged id = previous stored id + 1, recipients and store show the acknowledged id, no duplicates or gaps among stored ids, counters never decrease, live counter covers stored messages (across unload/reload).")
_topic("C02", "Monitors: recipient set = attached sessions of readers (minus the publisher under noecho), one copy each, content/author/id unaltered, push receipt addressed to subscribers with R and P.")
_topic("C03", "Monitors: 202 iff attached and W in want/\\given; a rejected publish gets an error code and changes neither store nor live topic and reaches nobody.")
_topic("C06", "Monitors: exactly one effective owner in the store after every step, live topic and topic row know that owner, others cannot change the owner's subscription, ownership leaves only by an accepted transfer, owner cannot unsubscribe, only the owner deletes the topic or changes public/default access, O is granted only by the owner.")
_topic("C07", "Monitors: given changes only by approver/owner (or admin self-raise without O/D, or the strip at transfer), want only by its user, invitations need sharer (default access unless admin), re-subscription restores the previous grant, first subscription gets the default grant, subscriber limit, no attachment without J in given.")
_topic("C08", "Monitors: at the step where it first breaks, every live-topic field (ids, default access, subscribers, permissions, marks, owner) equals what a reload would compute from the rows; a request answered with an error leaves the store unchanged. Reload (idle unload through the real timer + re-subscribe) is part of the generated behaviours.")
_topic("C09", "Monitors: 0<=read<=recv<=last id in store and live topic (reported where first broken), marks never decrease, marks move only by the user's own publish or note with R, notes are never answered.")

_ALL = ["C%02d" % i for i in range(1, 21)]
NOT_APPLICABLE = {p: "check not built yet in this round (work in progress; the technique applies, see DESIGN.md §5)" for p in _ALL if p not in CLAIMED}
