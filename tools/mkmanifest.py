#!/usr/bin/env python3
"""Regenerates /verif/MANIFEST.json from the table below (single source of truth for the interface)."""
import json, os
V = os.path.dirname(os.path.dirname(os.path.abspath(__file__)))

BASE_OFF = ("cd /repo/server && GOFLAGS=-mod=mod GOPROXY=off GOSUMDB=off GOTOOLCHAIN=local "
            "go test -vet=off -count=1 . ./db/common ./drafty ./ringhash")

# property -> dict(category, text, note, technique, design_ref) ; absent => not_applicable with reason
CLAIMED = {}
NOT_YET = {}

def load_tables():
    import importlib.util
    p = os.path.join(V, "tools", "manifest_table.py")
    spec = importlib.util.spec_from_file_location("manifest_table", p)
    m = importlib.util.module_from_spec(spec); spec.loader.exec_module(m)
    return m.CLAIMED, m.NOT_APPLICABLE, m.HOOK_COMMITS, m.ENGINES

def main():
    claimed, na, hook_commits, engines = load_tables()
    checks = []
    for pid in sorted(claimed):
        c = claimed[pid]
        checks.append({
            "property_id": pid,
            "quick_cmd": "python3 tools/check.py %s --tier quick" % pid,
            "thorough_cmd": "python3 tools/check.py %s --tier thorough" % pid,
            "evidence_file": "/verif/evidence/%s.json" % pid,
            "replay_cmd_template": "python3 tools/check.py %s --replay {path}" % pid,
            "engine": c.get("engine", "check.py"),
            "level_claimed": {"category": c["category"], "text": c["text"], "design_ref": c.get("design_ref", "DESIGN.md §5 " + pid)},
            "level_note": c["note"],
            "technique": c["technique"],
        })
    m = {
        "version": 1,
        "setup_cmd": "python3 tools/setup.py",
        "hooks": {"guard": "verif", "enable": "go test -tags verif -overlay <generated from /verif/harness> (see tools/vlib.py)",
                  "baseline_off_cmd": BASE_OFF, "source_commits": hook_commits, "add_only": True},
        "engines": engines,
        "checks": checks,
        "notes": "All checks: TLA+ specification (spec/) model-checked by TLC, bound to /repo's working tree by replaying TLC-generated behaviours/vectors into the real code (Go overlay harness, nothing written to /repo) and evaluating the property monitors with TLC on the traces recorded from the real code. See DESIGN.md.",
        "not_applicable": [{"property_id": k, "reason": v} for k, v in sorted(na.items())],
    }
    with open(os.path.join(V, "MANIFEST.json"), "w") as fh:
        json.dump(m, fh, indent=1)
    print("MANIFEST.json: %d checks, %d not_applicable" % (len(checks), len(na)))

if __name__ == "__main__":
    main()
