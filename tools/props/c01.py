"""C01 — per-topic message ids are unique, gapless and follow acceptance order."""
from props import topic_common as tc

KINDS = ["NewGrp", "Sub", "Leave", "SetSelf", "SetOther", "Pub", "Unload", "Reload"]


def run(ctx):
    return tc.run_topic_check(
        ctx, "C01", kinds=KINDS, maxseq=6, sess_per_user=2, nusers=2, p2p=True, root=True,
        want=["-", "JRW", "JW"], given=["-", "JRW", "JRWPAS"],
        u1_quick={"want": ["-", "JRW"], "given": ["-", "JRW"], "kinds": ["NewGrp", "Sub", "Leave", "Pub", "Unload"], "maxseq": 3, "nusers": 2},
        u1_thorough={"want": ["-", "JRW", "JW"], "given": ["-", "JRW"], "kinds": KINDS, "maxseq": 3, "nusers": 2},
        e2pub={"quick": 12, "thorough": 150},
        faults={"quick": 120, "thorough": 1200, "modes": ("error", "crash"), "kinds": ("Pub",)},
        sim_quick={"num": 100, "depth": 16}, sim_thorough={"num": 1200, "depth": 24})
