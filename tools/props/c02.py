"""C02 — each accepted message reaches exactly the attached readers, once, unaltered."""
from props import topic_common as tc

KINDS = ["NewGrp", "Sub", "Leave", "SetSelf", "SetOther", "DelSub", "Pub", "Unload", "Conn", "Reload"]


def run(ctx):
    return tc.run_topic_check(
        ctx, "C02", kinds=KINDS, maxseq=4, sess_per_user=2, nusers=3, p2p=True, root=True, chan=True,
        want=["-", "N", "JRWP", "JWP", "JRW", "RWP"], given=["-", "N", "JRWP", "JWP", "JRW", "RWP", "JRWPAS"],
        u1_quick={"want": ["-", "JRWP", "JWP"], "given": ["-", "JRW"], "kinds": ["NewGrp", "Sub", "Leave", "SetOther", "Pub"], "maxseq": 1, "nusers": 2, "sess_per_user": 2},
        u1_thorough={"want": ["-", "N", "JRWP", "JWP"], "given": ["-", "JRW", "JWP"], "kinds": ["NewGrp", "Sub", "Leave", "SetOther", "Pub"], "maxseq": 1, "nusers": 2, "sess_per_user": 2},
        e2pub={"quick": 12, "thorough": 150},
        sim_quick={"num": 120, "depth": 16}, sim_thorough={"num": 1200, "depth": 22})
