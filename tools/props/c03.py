"""C03 — only users with effective write permission can add a message to a topic."""
from props import topic_common as tc

KINDS = ["NewGrp", "Sub", "Leave", "SetSelf", "SetOther", "DelSub", "DelTopic", "Pub", "Unload"]


def run(ctx):
    return tc.run_topic_check(
        ctx, "C03", kinds=KINDS, maxseq=4, p2p=True, root=True, special=True, suspend=True,
        want=["-", "N", "JRW", "JR", "JW", "RW"], given=["-", "N", "JRW", "JR", "RW", "JRWPAS"],
        u1_quick={"want": ["-", "N", "JRW", "JR"], "given": ["-", "N", "JRW", "JR"], "kinds": ["NewGrp", "Sub", "Leave", "SetSelf", "SetOther", "Pub", "Unload"], "maxseq": 1, "nusers": 2},
        u1_thorough={"want": ["-", "N", "JRW", "JR"], "given": ["-", "N", "JRW", "JR"], "kinds": KINDS, "maxseq": 1},
        gates={"outer": ("DelTopic",), "methods": ("TopicDelete",), "limit": 40},
        sim_quick={"num": 150, "depth": 14}, sim_thorough={"num": 1500, "depth": 18})
