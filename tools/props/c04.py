"""C04 — history shows exactly what was published and not deleted; deletion is exact."""
import os
import vlib
from props import topic_common as tc

KINDS = ["NewGrp", "Sub", "Leave", "SetOther", "Pub", "DelMsg", "GetData", "GetDel", "Unload", "Reload"]
RANGES = [[(1, 0)], [(1, 3)], [(2, 2)], [(1, 3), (3, 0)], [(1, 3), (4, 6)], [(3, 9)], [(2, 0), (1, 2), (4, 0)], [(0, 2)], [(5, 0)], [(2, 4), (1, 5)], [(3, 0), (1, 0)]]


def pure_part(ctx):
    thorough = ctx.tier == "thorough"
    r1 = ctx.tlc_must_pass("RangesMC", timeout=600)
    out = os.path.join(ctx.specdir, "c04r_vectors.ndjson")
    ctx.go_test_must_run("./store/types/", "TestVerifC04Ranges",
                         env={"VERIF_OUT": out, "VERIF_C04_MAXLEN": 3, "VERIF_C04_STRIDE": 1 if thorough else 9})
    r, fails, divs = vlib.run_vector_monitor(ctx, "Monitor_C04R", "c04r_vectors.ndjson", timeout=900)
    vec = vlib.read_ndjson(out)
    for k, mons in fails:
        for m in mons:
            ctx.fail(m, vec[k - 1], act="Normalize", site="RangeSorter.Normalize")
    for k, w in divs:
        ctx.divergences.append({"vector": vec[k - 1], "what": w})
    vlib.log("pure part: U1 RangesMC %d states; %d real sort+Normalize vectors, %d failures, %d divergences" % (r1.distinct, len(vec), len(fails), len(divs)))
    ctx.cov["pure"] = {"u1_states": r1.distinct, "vectors": len(vec), "exhaustive_triples": thorough}
    return len(vec)


def run(ctx):
    nvec = pure_part(ctx)
    ctx.cov_extra_eval = nvec
    return tc.run_topic_check(
        ctx, "C04", kinds=KINDS, maxseq=5, nusers=3, chan=True, root=True,
        want=["-", "JRW", "JRWD", "JW"], given=["-", "JRW", "JRWD", "JRWPASD"],
        u1_quick={"want": ["-", "JRWD"], "given": ["-", "JRW", "JRWD"], "kinds": ["NewGrp", "Sub", "SetOther", "Pub", "DelMsg"], "maxseq": 2, "nusers": 2,
                  "delranges": [[(1, 0)], [(1, 3)], [(2, 0), (1, 0)]], "maxdel": 2},
        u1_thorough={"want": ["-", "JRWD", "JW"], "given": ["-", "JRW", "JRWD"], "kinds": ["NewGrp", "Sub", "Leave", "SetOther", "Pub", "DelMsg", "Unload"], "maxseq": 3, "nusers": 2,
                     "delranges": [[(1, 0)], [(1, 3)], [(2, 0), (1, 0)], [(1, 2), (3, 9)]], "maxdel": 2},
        delranges=RANGES, maxdel=4,
        sim_quick={"num": 120, "depth": 18}, sim_thorough={"num": 1200, "depth": 26})
