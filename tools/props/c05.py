"""C05 — access modes obey one consistent algebra in every representation."""
import os, json, collections
import vlib, world


def nontrivial(v):
    op = v["op"]
    if op in ("repr", "tracker", "text"):
        return True
    if op == "deltaapply":
        return v["a"] != v["b"]
    if op == "parse":
        return len(v["s"]) > 0
    return (not v["ok"]) or v["pre"] != v["post"]


def run(ctx):
    thorough = ctx.tier == "thorough"
    # U1: design check of the as-intended algebra + notification tracker (all 257x257 changes, all pairs)
    r1 = ctx.tlc_must_pass("AcsTracker", timeout=900)
    vlib.log("U1 AcsTracker: %d states generated, %d distinct, %.1fs" % (r1.generated, r1.distinct, r1.wall))

    # E3: real functions over the exhaustive finite domain
    vec = os.path.join(ctx.specdir, "c05_vectors.ndjson")
    p1 = os.path.join(ctx.scratch, "v_types.ndjson")
    p2 = os.path.join(ctx.scratch, "v_tracker.ndjson")
    maxlen = 4 if thorough else 3
    ctx.go_test_must_run("./store/types/", "TestVerifC05Vectors",
                         env={"VERIF_OUT": p1, "VERIF_C05_MAXLEN": maxlen, "VERIF_C05_PAIRSTEP": 1 if thorough else 3})
    ctx.go_test_must_run("./", "TestVerifC05Tracker",
                         env={"VERIF_OUT": p2, "VERIF_C05_STRIDE": 1 if thorough else 4, "VERIF_C05_WALKS": 200 if thorough else 40})
    with open(vec, "w") as out:
        for p in (p1, p2):
            with open(p) as fh:
                for line in fh:
                    out.write(line)
    vectors = vlib.read_ndjson(vec)
    r2, fails, divs = vlib.run_vector_monitor(ctx, "Monitor_C05", "c05_vectors.ndjson", timeout=1800)
    vlib.log("monitors: %d vectors, %d monitor failures, %d divergences, %.1fs" % (len(vectors), len(fails), len(divs), r2.wall))

    def brief(v):
        v = dict(v)
        if v["op"] == "tracker":
            bad = [s for s in v["steps"] if set(s["fw"]) != set(x for x in s["nw"] if x != "U") or set(s["fg"]) != set(x for x in s["ng"] if x != "U")]
            v = {"op": "tracker", "nsteps": len(v["steps"]), "first_bad_step": (bad or v["steps"])[0]}
        for k in ("s", "d", "text", "str", "json"):
            if k in v and isinstance(v[k], list):
                v[k] = "".join(v[k])
        return v

    for k, mons in fails:
        v = vectors[k - 1]
        for m in mons:
            ctx.fail(m, brief(v), op=v["op"], input="".join(v.get("s", v.get("d", []))) if v["op"] != "tracker" else "tracker")
    for k, what in divs:
        ctx.divergences.append({"vector": brief(vectors[k - 1]), "what": what})

    # ---- history part: whole request histories in the real server; every {pres what=acs} notice a session receives inside a
    # group topic, applied to the subject's pre-step permissions, must give the permissions the live topic holds after the step
    users, sess, topics = world.population(3, 2, ("g1", "p12"))
    kinds = ["NewGrp", "Sub", "Leave", "SetSelf", "SetOther", "DelSub", "Reload", "P2P"]
    cw = world.mc_consts(users, sess, topics, world.DEV_BUILT, ["-", "N", "JR", "JRA", "JRASO", "JRWPASDO"],
                         ["-", "N", "JR", "JRAS", "JRASO", "JRWPASDO"], kinds, ["C05"])
    behs, _ = world.simulate(ctx, "SimC05", cw, 600 if thorough else 100, 16 if thorough else 14, ctx.seed)
    # goal-directed p2p histories (one side unsubscribes and comes back while the topic stays loaded / after a reload ...)
    gb = world.goal_behaviours(ctx, users, sess, topics, names=list(world.P2P_GOALS) + ["pending_transfer_accepted", "pending_transfer", "admin_not_owner",
                                                                         "sharer_only", "admin_want_exceeds_given", "banned_live"])
    behs = [b for _, b in sorted(gb.items())] + behs
    bj = world.behaviours_json(behs, users, sess, topics)
    trace, _ = world.replay(ctx, bj)
    r3, recs, wfails, wdivs = world.check_traces(ctx, trace, cw, ["C05"])
    nw = world.report(ctx, recs, wfails, wdivs, "C05")
    nacs = sum(1 for r in recs for fr in r["frames"].values() for f in fr if f.get("k") == "pres" and f.get("what") == "acs" and f.get("topic") in ("g1", "p12"))
    vlib.log("history part: %d behaviours, %d steps, %d acs notices followed, %d follower mismatches, %d divergences" % (len(bj), len(recs), nacs, nw, len(wdivs)))
    ctx.cov["history_part"] = {"behaviours": len(bj), "steps": len(recs), "acs_notices_followed": nacs}

    ops = collections.Counter(v["op"] for v in vectors)
    steps = sum(len(v["steps"]) for v in vectors if v["op"] == "tracker")
    nt = sum(1 for v in vectors if nontrivial(v))
    ctx.cov.update({
        "states": r1.distinct + r2.distinct, "transitions": r1.generated + r2.generated,
        "traces_validated_against_impl": len(vectors) + len(bj),
        "evaluations": len(vectors) - ops["tracker"] + steps, "distinct_nontrivial": nt,
        "rule": "every mode 0..255 through all representations; every string of length<=%d over a 15-char alphabet (8 for length 5) through ParseAcs/UnmarshalText/ApplyDelta/ApplyMutation on 3 targets; %s mode pairs through Delta+ApplyDelta/ApplyMutation; every (old,new) change through the real notifySubChange -> updateAcsFromPresMsg; non-trivial = changes or rejects the target / a!=b / any repr or tracker record" % (maxlen, "all 65536" if thorough else "every 3rd of 65536"),
        "per_op": dict(ops), "tracker_steps": steps, "exhaustive": bool(thorough),
        "model": {"module": "AcsTracker", "generated": r1.generated, "distinct": r1.distinct},
        "monitor_run": {"module": "Monitor_C05", "vectors": len(vectors)},
    })
    ctx.assumptions += ["json/encoding and database/sql scanning call UnmarshalText/MarshalText as recorded (stdlib trusted)",
                        "a follower's starting state equals the authoritative state (induction base); want and given are announced by the same rule"]
    samples = [brief(vectors[i]) for i in (0, 300, len(vectors) // 2, len(vectors) - 1) if i < len(vectors)]
    return ctx.finish(level="model_checking", samples=samples)
