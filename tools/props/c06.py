"""C06 — a group topic has exactly one owner at all times."""
from props import topic_common as tc

KINDS = ["NewGrp", "Sub", "Leave", "SetSelf", "SetOther", "DelSub", "DelTopic", "SetDesc", "Unload", "Reload", "Conn"]
BASE = ["NewGrp", "Sub", "Leave", "SetSelf", "SetOther", "DelSub", "Unload"]


def run(ctx):
    return tc.run_topic_check(
        ctx, "C06", kinds=KINDS,
        want=["-", "N", "JR", "JRA", "JRASO", "O", "JRWPASDO"], given=["-", "N", "JR", "JRAS", "JRASO", "JRWPASDO"], maxseq=0,
        u1_quick={"want": ["-", "N", "JRASO"], "given": ["-", "N", "JRASO"], "kinds": BASE},
        u1_thorough={"want": ["-", "N", "JRA", "JRASO"], "given": ["-", "N", "JRAS", "JRASO"], "kinds": BASE + ["DelTopic"]},
        sim_quick={"num": 150, "depth": 12}, sim_thorough={"num": 1500, "depth": 16})
