"""C07 — permissions change only through authorised requests; bans and limits stick."""
from props import topic_common as tc

KINDS = ["NewGrp", "Sub", "Leave", "SetSelf", "SetOther", "DelSub", "DelTopic", "Unload", "Reload", "Conn"]
BASE = ["NewGrp", "Sub", "Leave", "SetSelf", "SetOther", "DelSub", "Unload"]


def run(ctx):
    return tc.run_topic_check(
        ctx, "C07", kinds=KINDS, maxsubs=2 if ctx.seed % 2 == 0 else 3, p2p=True, root=True, special=True, chan=True,
        want=["-", "N", "JR", "JRS", "JRA", "JRASO", "JRWPASD", "RWP"], given=["-", "N", "JR", "RWP", "JRS", "JRAS", "JRASO", "JRWPASD"], maxseq=0,
        u1_quick={"want": ["-", "N", "JRS", "JRA"], "given": ["-", "N", "JRS", "JRA"], "kinds": BASE, "nusers": 3},
        u1_thorough={"want": ["-", "N", "JRS", "JRA", "JRASO"], "given": ["-", "N", "JRS", "JRASO"], "kinds": BASE, "nusers": 3},   # 87k distinct / 4.3M generated, ~1-3 min
        sim_quick={"num": 150, "depth": 12}, sim_thorough={"num": 1500, "depth": 16})
