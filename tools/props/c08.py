"""C08 — the live topic state and the stored state never diverge."""
from props import topic_common as tc

KINDS = ["NewGrp", "Sub", "Leave", "SetSelf", "SetOther", "DelSub", "SetDesc", "Pub", "Note", "DelMsg", "Unload", "Reload", "Conn"]
BASE = ["NewGrp", "Sub", "Leave", "SetSelf", "SetOther", "Pub", "Note", "Unload"]


def run(ctx):
    return tc.run_topic_check(
        ctx, "C08", kinds=KINDS, maxseq=3, p2p=True,
        want=["-", "N", "JR", "JRW", "JW", "JRWPASD"], given=["-", "N", "JR", "JRW", "JRWPAS", "JRWPASDO"],
        u1_quick={"want": ["-", "N", "JRW"], "given": ["-", "N", "JRW"], "kinds": BASE, "maxseq": 1, "nusers": 2},
        u1_thorough={"want": ["-", "N", "JRW", "JW"], "given": ["-", "N", "JRW"], "kinds": BASE, "maxseq": 2, "nusers": 2},
        faults={"quick": 120, "thorough": 1200, "modes": ("error", "crash")},
        sim_quick={"num": 120, "depth": 14}, sim_thorough={"num": 1500, "depth": 18})
