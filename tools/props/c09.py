"""C09 — read and received marks only move forward and stay within bounds."""
from props import topic_common as tc

KINDS = ["NewGrp", "Sub", "Leave", "SetSelf", "SetOther", "Pub", "Note", "Unload", "Reload"]


def run(ctx):
    return tc.run_topic_check(
        ctx, "C09", kinds=KINDS, maxseq=4, nusers=2, sess_per_user=2, p2p=True, chan=True, special=True,
        want=["-", "N", "JRW", "JW", "JR"], given=["-", "JRW", "JW", "JRWPAS"],
        u1_quick={"want": ["-", "JRW", "JW"], "given": ["-", "JRW"], "kinds": ["NewGrp", "Sub", "Leave", "Pub", "Note", "Unload"], "maxseq": 2, "nusers": 2},
        u1_thorough={"want": ["-", "JRW", "JW"], "given": ["-", "JRW", "JW"], "kinds": KINDS, "maxseq": 2, "nusers": 2},
        sim_quick={"num": 120, "depth": 18}, sim_thorough={"num": 1200, "depth": 24})
