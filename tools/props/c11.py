"""C11 — sessions can only act within their handshake and authentication state.

U1: TLC explores spec/Session.tla (as intended) exhaustively: every transition of the whole reachable state space over ALL
abstract messages satisfies the eight clauses.  Binding: TLC generates abstract message sequences (every sequence of <= 3
messages over the C11 alphabet; one shortest witness per reachable model state, extended by further messages = transition
tour; random walks of length 8 in thorough), the Go recorder concretises them into real client JSON and sends them through
Session.dispatchRaw on fresh sessions of the World; Monitor_C11.tla evaluates the clauses on the real replies / projected
session state and checks conformance with the as-built model.
"""
import json, os, random, re, collections, threading
import vlib

# Deviations of today's /repo from the as-intended model (TRUE = what the code does today; see known_findings_c13.notes.md).
# When /repo is repaired by a `fix:` commit, flip the switch: the binding then demands the repaired behaviour.
DEV_BUILT = {
    "DEV_AccUnknownTmpNoReturn": "FALSE",
    "DEV_NoteCallBadTopicPanics": "FALSE",
    "DEV_DelTopicBadNamePanics": "FALSE",
    "DEV_LeaveOboSilent": "FALSE",
}
DEV_INTENDED = {k: "FALSE" for k in DEV_BUILT}


def dev_built():
    d = dict(DEV_BUILT)
    for kv in os.environ.get("VERIF_SESSION_DEV", "").split(","):   # e.g. VERIF_SESSION_DEV=DEV_LeaveOboSilent=FALSE
        if "=" in kv:
            k, v = kv.split("=", 1)
            d[k.strip()] = v.strip().upper()
    return d


def write_cfg(ctx, name, consts, lines):
    with open(os.path.join(ctx.specdir, name + ".cfg"), "w") as fh:
        fh.write("CONSTANTS\n" + "\n".join("  %s = %s" % kv for kv in consts.items()) + "\n" + "\n".join(lines) + "\n")
    return name + ".cfg"


def mc_cfg(ctx, name, dev, alpha, maxlen, tag, view, invariants, validators="TRUE", tracktok="TRUE"):
    c = {"Validators": validators, "TrackTok": tracktok}
    c.update(dev)
    c.update({"AlphaName": '"%s"' % alpha, "MaxLen": str(maxlen), "EmitTag": '"%s"' % tag})
    lines = ["INIT Init", "NEXT Next"] + (["VIEW StView"] if view else []) + ["INVARIANT %s" % i for i in invariants] + ["CHECK_DEADLOCK FALSE"]
    return write_cfg(ctx, name, c, lines)


REC_RE = re.compile(r"\[([^\[\]]*)\]")
FLD_RE = re.compile(r'(\w+) \|-> "([^"]*)"')


def parse_alphabet(out, tag="ALPHABET"):
    """<< "ALPHABET", << [k |-> "hi", ...], ... >> >> printed by TLC -> list of dicts (index order)."""
    txt = " ".join(out.split())
    m = re.search(r'<<\s*"%s"\s*,' % tag, txt)
    if not m:
        raise vlib.Infra("TLC did not print the alphabet")
    j = re.search(r'\]\s*>>\s*>>', txt[m.end():])
    body = txt[m.end(): m.end() + (j.end() if j else 0)]
    recs = [dict(FLD_RE.findall(r)) for r in REC_RE.findall(body)]
    if not recs:
        raise vlib.Infra("empty alphabet printed by TLC")
    return recs


def parse_hists(out, tag):
    """<< "TAG", << 1, 5, 7 >> >> lines -> list of index lists."""
    txt = " ".join(out.split())
    res = []
    for m in re.finditer(r'<<\s*"%s"\s*,\s*<<([\d,\s]*)>>\s*>>' % tag, txt):
        res.append([int(x) for x in m.group(1).replace(",", " ").split()])
    return res


def generate(ctx, thorough):
    dev = dev_built()
    fams = collections.OrderedDict()
    alpha = "t" if thorough else "q"
    # F1: every sequence of <= 3 messages over the C11 alphabet (each is a distinct TLC state; clauses checked on the way)
    cfg = mc_cfg(ctx, "SessGenSeq", dev, alpha, 3, "SEQ", False, ["Emit", "TypeOK"])
    r1 = ctx.tlc("Session_MC", cfg, timeout=600)
    if not r1.ok:
        raise vlib.Infra("Session_MC sequence generation failed: " + (r1.error or r1.out[-800:]))
    abc = parse_alphabet(r1.out)
    seqs = [h for h in parse_hists(r1.out, "SEQ") if h]
    fams["seq3"] = [[abc[i - 1] for i in h] for h in seqs]
    # F2: transition tour: one shortest witness per distinct reachable model state (depth <= 3 over the C11 alphabet),
    # continued by every message (quick: a seeded sample) of the FULL message universe, thorough: by pairs over the C11 alphabet too
    cfg = mc_cfg(ctx, "SessGenWit", dev, alpha, 3, "WIT", True, ["Emit"])
    r2 = ctx.tlc("Session_MC", cfg, workers=1, timeout=600)
    if not r2.ok:
        raise vlib.Infra("Session_MC witness generation failed: " + (r2.error or r2.out[-800:]))
    wits = parse_hists(r2.out, "WIT")
    allmsgs = parse_alphabet(r2.out, "UNIVERSE")   # the full message universe, for the tour continuations
    rng = random.Random(ctx.seed * 7919 + 11)
    tour = []
    for h in wits:
        pre = [abc[i - 1] for i in h]
        # quick: every message of the C11 alphabet plus a seeded sample of the universe
        cont = allmsgs if thorough else abc + [m for m in rng.sample(allmsgs, min(len(allmsgs), 80)) if m not in abc]
        for m in cont:
            tour.append(pre + [m])
    fams["tour"] = tour
    # F2b: the client reconnects and presents the token it was last given: every TLC-generated sequence of <= 2 messages,
    # continued by {conn}{login token=prev} (in the model a fresh connection after the handshake equals the old one before
    # login, so the witness tour alone would not send the token over a NEW connection)
    conn = [m for m in abc if m["k"] == "conn"]
    prev = [m for m in abc if m.get("sec") == "prev"]
    if conn and prev:
        getme = [m for m in abc if m["k"] == "get" and m["t"] == "me" and m["o"] == "none"]
        short = [[abc[i - 1] for i in h] for h in seqs if len(h) <= 2]
        fams["reconn"] = [p + [conn[0], prev[0]] for p in short]
        # chains of re-issue: the token from the reply is presented again and again, on the same and on a new connection, with a
        # privileged request after each (e.g. hi, login nologin, prev, get me, conn, prev, get me; hi, login needscred, prev, prev)
        fams["chain"] = [p + [prev[0], prev[0]] for p in short] + [p + [prev[0]] + getme[:1] + [conn[0], prev[0]] + getme[:1] for p in short]
    # F2c: store faults. Every login / account message of the alphabet after the handshake, with the n-th adapter call made while it is
    # processed failing (n = 1..6, thorough 1..10), followed by a privileged request: a store failure may make the login fail, it must
    # never authenticate a session the fault-free login would not (judged by the clauses; no prediction for these sequences)
    his = [m for m in abc if m["k"] == "hi" and m.get("v") in ("A", "B")][:1]
    getme2 = [m for m in abc if m["k"] == "get" and m.get("t") == "me" and m.get("o") == "none"][:1]
    if his:
        fl = []
        for m in abc:
            if m["k"] in ("login", "acc") and m.get("sec") != "prev":
                for nth in range(1, (10 if thorough else 6) + 1):
                    fl.append(his + [dict(m, fault=nth)] + getme2)
        fams["fault"] = fl
    # F3 (thorough): random walks of 8 messages over the thorough alphabet
    r3 = None
    if thorough:
        cfg = mc_cfg(ctx, "SessGenSim", dev, "t", 8, "SIM", False, ["EmitFull"])
        r3 = ctx.tlc("Session_MC", cfg, workers=1, simulate="num=3000", depth=9, seed=ctx.seed, timeout=600)
        if "Error" in r3.out and "SIM" not in r3.out:
            raise vlib.Infra("Session_MC simulation failed: " + r3.out[-800:])
        # TLC evaluates the invariant on every candidate successor of the last step: keep one complete walk per prefix
        byprefix = collections.OrderedDict()
        for h in parse_hists(r3.out, "SIM"):
            byprefix.setdefault(tuple(h[:-1]), []).append(h)
        sims = [rng.choice(v) for v in byprefix.values()]
        fams["sim8"] = [[abc[i - 1] for i in h] for h in sims]
    return fams, dict(alphabet=len(abc), universe=len(allmsgs), witnesses=len(wits), gen_states=r1.distinct + r2.distinct,
                      gen_transitions=r1.generated + r2.generated)


def run(ctx):
    thorough = ctx.tier == "thorough"
    # ---- U1: as-intended model (runs in the background while the sequences are generated and recorded)
    u1 = {}

    def design_check():
        try:
            # whole reachable state space, every abstract message in every state = sequences of every length.
            # (the whole universe incl. {login token=prev}/{conn}, with the handed-out token tracked; and the C11 alphabet alone)
            nw = max(4, vlib.NCPU // 2)
            u1["r0"] = ctx.tlc_must_pass("Session_MC", mc_cfg(ctx, "SessU1", DEV_INTENDED, "all", 1000, "", True, ["NoViolation", "TypeOK"],
                                                           tracktok="TRUE"), timeout=1500, workers=nw)
            u1["r0a"] = ctx.tlc_must_pass("Session_MC", mc_cfg(ctx, "SessU1a", DEV_INTENDED, "t" if thorough else "q", 1000, "", True,
                                                            ["NoViolation", "TypeOK"]), timeout=900, workers=nw)
            # every sequence of <= 3 (4) messages over the C11 alphabet as a distinct state
            u1["r0b"] = ctx.tlc_must_pass("Session_MC", mc_cfg(ctx, "SessU1b", DEV_INTENDED, "t" if thorough else "q", 4 if thorough else 3, "", False,
                                                            ["NoViolation", "TypeOK"]), timeout=1500, workers=nw)
        except BaseException as e:  # re-raised in the main thread
            u1["err"] = e
    th = threading.Thread(target=design_check)
    th.start()
    try:
        return record_and_judge(ctx, thorough, th, u1)
    finally:
        th.join()


def record_and_judge(ctx, thorough, th, u1):

    # ---- sequences generated by TLC from the as-built model
    fams, gstat = generate(ctx, thorough)
    inp = os.path.join(ctx.scratch, "c11_in.ndjson")
    n = 0
    with open(inp, "w") as fh:
        for fam, ss in fams.items():
            for s in ss:
                n += 1
                fh.write(json.dumps({"id": "%s-%d" % (fam, n), "fam": fam, "steps": s}, separators=(",", ":")) + "\n")
    vlib.log("generated %d sequences: %s" % (n, {k: len(v) for k, v in fams.items()}))

    # ---- recording on the real server
    vec = os.path.join(ctx.specdir, "c11_vectors.ndjson")
    env = {"VERIF_IN": inp, "VERIF_OUT": vec}
    if os.environ.get("VERIF_C11_SELFTEST"):
        env["VERIF_C11_SELFTEST"] = os.environ["VERIF_C11_SELFTEST"]
    out, wall = ctx.go_test_must_run("./", "TestVerifC11Run$", env=env, timeout=1500, extra=["-v"])
    m = re.search(r"VERIF_C11 sequences=(\d+) procs=(\d+) deaths=(\d+)", out)
    deaths = int(m.group(3)) if m else -1
    vectors = vlib.read_ndjson(vec)
    if len(vectors) != n:
        raise vlib.Infra("recorded %d sequences, expected %d" % (len(vectors), n))
    vlib.log("recorded %d sequences in %.1fs (%d child process deaths)" % (len(vectors), wall, deaths))

    # ---- verdict by TLC
    c = {"Validators": "TRUE", "TrackTok": "TRUE"}
    c.update(dev_built())
    write_cfg(ctx, "Monitor_C11", c, ["INIT Init", "NEXT Next", "CHECK_DEADLOCK FALSE"])
    r2, fails, divs = vlib.run_vector_monitor(ctx, "Monitor_C11", "c11_vectors.ndjson", timeout=2400)
    vlib.log("monitors: %d sequences, %d with clause failures, %d divergences, %.1fs" % (len(vectors), len(fails), len(divs), r2.wall))

    def desc(m):
        return m["k"] + ":" + ",".join("%s=%s" % (k, v) for k, v in sorted(m.items()) if k not in ("k",) and v != "-" and not (k == "o" and v == "none"))

    def brief(v, upto=None):
        if v.get("died"):
            return {"id": v["id"], "died_at": v["at"], "site": v["site"], "msgs": [desc(x) for x in v["msgs"]], "input": v.get("raw", "")[:300]}
        st = []
        for s in v["steps"][:upto]:
            st.append({"m": desc(s["m"]), "codes": [f["code"] for f in s["fr"]], "ver": s["ver"], "uid": s["uid"], "lvl": s["lvl"], "att": s["att"],
                       "rd": s["rd"], "panic": s["panic"]})
        return {"id": v["id"], "steps": st, "probe": v["probe"]}

    for k, tags in fails:
        v = vectors[k - 1]
        for tag in tags:
            mon, _, at = tag.partition("@")
            step = v["steps"][int(at) - 1] if at.isdigit() else None
            ctx.fail(mon, brief(v, int(at) if at.isdigit() else None), input_class=desc(step["m"]) if step else "probe", at=at)
    for k, what in divs:
        v = vectors[k - 1]
        ctx.divergences.append({"sequence": brief(v), "what": what})

    th.join()
    if "err" in u1:
        raise u1["err"]
    r0, r0b, r0a = u1["r0"], u1["r0b"], u1["r0a"]
    vlib.log("U1 Session (as intended, C11 alphabet incl. login-with-previous-token and reconnect, every reachable state): %d transitions, %d states, %.1fs" % (
        r0a.generated, r0a.distinct, r0a.wall))
    vlib.log("U1 Session (as intended, all %d messages in every reachable state): %d transitions, %d states, %.1fs" % (gstat["universe"], r0.generated, r0.distinct, r0.wall))
    vlib.log("U1 Session (every sequence of <= %d messages over the C11 alphabet): %d states, %.1fs" % (4 if thorough else 3, r0b.distinct, r0b.wall))
    # the history class "login with the token the previous reply handed out": what it was answered, by issuing reply
    prevstat = collections.Counter()
    for v in vectors:
        last, conn = None, False
        for st in v["steps"]:
            if st["m"]["k"] == "conn":
                conn = True
            if st["m"].get("sec") == "prev":
                prevstat["token from %s%s -> %s uid=%s" % (("{ctrl %d} to %s/%s" % last) if last else "nobody", ", new connection" if conn else "",
                                                          [f["code"] for f in st["fr"]], st["uid"] or "-")] += 1
            if st.get("tk", {}).get("has"):
                last, conn = (st["tk"]["code"], st["tk"]["user"], st["tk"]["lvl"]), False
    for k, n in sorted(prevstat.items()):
        vlib.log("  login with previous token: %-70s x%d" % (k, n))
    steps = sum(len(v["steps"]) for v in vectors)
    kinds = collections.Counter(s["m"]["k"] for v in vectors for s in v["steps"])
    loggedin = sum(1 for v in vectors for s in v["steps"] if s["uid"])
    delivered = sum(len(s["rd"]) for v in vectors for s in v["steps"])
    distinct = len({json.dumps([s["m"] for s in v["steps"]], sort_keys=True) for v in vectors})
    ctx.cov.update({
        "states": r0.distinct + r0a.distinct + r0b.distinct + gstat["gen_states"] + r2.distinct,
        "transitions": r0.generated + r0a.generated + r0b.generated + gstat["gen_transitions"] + r2.generated,
        "traces_validated_against_impl": len(vectors), "evaluations": steps + len(vectors),
        "distinct_nontrivial": distinct,
        "rule": "every sequence of <=3 abstract messages over the %d-message C11 alphabet from a fresh connection; one shortest witness per reachable model state (%d) continued by %s of the %d-message universe%s; non-trivial = distinct message sequences" % (
            gstat["alphabet"], gstat["witnesses"], "every message" if thorough else "a seeded sample of 110 messages", gstat["universe"],
            "; 3000 TLC random walks of 8 messages" if thorough else ""),
        "exhaustive": True,
        "model": {"module": "Session", "u1_transitions": r0.generated, "u1_states": r0.distinct, "u1_bounded_states": r0b.distinct},
        "families": {k: len(v) for k, v in fams.items()}, "steps": steps, "steps_by_kind": dict(kinds), "steps_in_authenticated_state": loggedin,
        "data_frames_delivered_to_reader": delivered, "login_with_previous_token": dict(prevstat), "child_process_deaths": deaths,
        "monitor_run": {"module": "Monitor_C11", "vectors": len(vectors)},
    })
    ctx.assumptions += [
        "accounts are created through the store mapper with bcrypt hashes of MinCost (the real basic authenticator verifies them at that cost); accounts created by {acc} use the real default cost",
        "the credential validator is a harness implementation of the validate.Validator interface (store-backed, sends nothing)",
        "Session.ver/uid/authLvl and Session.subs are read by the harness after the server quiesced",
        "sessions are websocket-flavoured without a socket (dispatchRaw is called directly, the write loop is played by the harness)",
    ]
    ok = [v for v in vectors if not v.get("died") and v["steps"]]
    samples = [brief(ok[i]) for i in (0, len(ok) // 3, len(ok) // 2, len(ok) - 1) if ok]
    return ctx.finish(level="model_checking", samples=samples)
