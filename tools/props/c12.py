"""C12 — secrets cannot be forged, outlive their validity, or be guessed by brute force.

U1: TLC explores the as-intended token / reset-code / login+password / API-key machines of spec/Auth*.tla.
Binding: TLC emits the token mutation classes, every right/wrong guess sequence and random behaviours of the
code and basic machines; the Go recorders replay them into the REAL authenticators (and the REAL checkAPIKey,
with keys made by the real keygen) and record the outcomes; spec/Monitor_C12.tla decides.
"""
import base64, collections, glob, json, os, random, re, subprocess, threading
from concurrent.futures import ThreadPoolExecutor
import vlib

DEV = ["DEV_CodeNoAgeCheckOnGuess", "DEV_LoginLowerNotFold", "DEV_SerialTruncated16", "DEV_ApiKeyPanicsOnShortDecode"]


def dev_block(value="TRUE"):
    return "CONSTANTS\n" + "".join("  %s = %s\n" % (d, value) for d in DEV)


def write(path, text):
    with open(path, "w") as fh:
        fh.write(text)


def tla_bool(b):
    return "TRUE" if b else "FALSE"


def gen_exhaustive(ctx, tag, code_len, with_age, with_prev):
    """AuthGen: TLC writes the class list, every code-step sequence of the given length, the login scripts."""
    write(os.path.join(ctx.specdir, "AuthGen_%s.cfg" % tag),
          dev_block() + "  CodeLen = %d\n  CodeWithAge = %s\n  CodeWithPrev = %s\n" % (code_len, tla_bool(with_age), tla_bool(with_prev)))
    r = ctx.tlc("AuthGen", "AuthGen_%s.cfg" % tag, workers=1, timeout=300)
    if r.rc != 0 or "Error:" in r.out:
        print(r.out[-3000:])
        raise vlib.Infra("AuthGen (%s) failed to emit the input enumerations" % tag)
    out = {}
    for name in ("classes", "code_exh", "basic_exh"):
        src = os.path.join(ctx.specdir, "c12gen_%s.ndjson" % name)
        rows = vlib.read_ndjson(src)
        os.remove(src)
        out[name] = rows
    return out, r


def gen_simulated(ctx, module, kind, num, depth, consts):
    """-simulate: one ndjson file per behaviour, written by the Emit 'invariant' of the generator module."""
    for f in glob.glob(os.path.join(ctx.specdir, "c12gen_%s_[0-9]*.ndjson" % kind)):
        os.remove(f)
    write(os.path.join(ctx.specdir, module + "_run.cfg"), dev_block() + consts + "SPECIFICATION GenSpec\nINVARIANTS Emit\nCHECK_DEADLOCK FALSE\n")
    r = ctx.tlc(module, module + "_run.cfg", workers=1, simulate="num=%d" % num, depth=depth + 2, seed=ctx.seed, timeout=300)
    if r.rc != 0 or "Error:" in r.out:
        print(r.out[-3000:])
        raise vlib.Infra("%s simulation failed" % module)
    rows = []
    files = glob.glob(os.path.join(ctx.specdir, "c12gen_%s_[0-9]*.ndjson" % kind))
    for f in sorted(files, key=lambda p: int(re.search(r"_(\d+)\.ndjson$", p).group(1))):
        rows += vlib.read_ndjson(f)
        os.remove(f)
    if len(rows) < num // 2:
        raise vlib.Infra("%s simulation produced only %d of %d behaviours" % (module, len(rows), num))
    return rows, r


def make_keys(ctx):
    """API keys made by the REAL generator (/repo/keygen) for two salts; s1 will be the server's."""
    exe = os.path.join(ctx.scratch, "keygen")
    env = dict(os.environ)
    env.update(vlib.GOENV)
    p = subprocess.run(["go", "build", "-o", exe, "./keygen"], cwd=vlib.REPO, env=env,
                       stdout=subprocess.PIPE, stderr=subprocess.STDOUT, text=True)
    if p.returncode != 0:
        print(p.stdout[-3000:])
        raise vlib.Infra("cannot build /repo/keygen")
    rnd = random.Random(ctx.seed * 1000003 + 12)
    rows = []
    for sid in ("s1", "s2"):
        salt = base64.b64encode(bytes(rnd.getrandbits(8) for _ in range(32))).decode()
        for seq, root in ((1, 0), (1, 1), (rnd.randrange(2, 65535), 0), (65535, 1)):
            out = subprocess.run([exe, "-sequence", str(seq), "-isroot", str(root), "-salt", salt],
                                 stdout=subprocess.PIPE, stderr=subprocess.STDOUT, text=True).stdout
            m = re.search(r"API key v1 seq(\d+) \[(\w+)\]: (\S+)\nHMAC salt: (\S+)", out)
            if not m or int(m.group(1)) != seq or (m.group(2) == "ROOT") != (root == 1):
                raise vlib.Infra("unexpected keygen output: %r" % out)
            rows.append({"salt": sid, "saltb": m.group(4), "seq": seq, "isroot": root, "key": m.group(3)})
    path = os.path.join(ctx.scratch, "keygen_keys.ndjson")
    vlib.write_ndjson(path, rows)
    return path, len(rows)


def hexname(h):
    try:
        return bytes.fromhex(h).decode("utf-8", "replace")
    except ValueError:
        return h


def run(ctx):
    thorough = ctx.tier == "thorough"
    lock = threading.Lock()

    # ------------------------------------------------------------------ U1: design check of the as-intended machines
    def u1(module):
        return module, ctx.tlc_must_pass(module, workers=max(2, vlib.NCPU // 4), timeout=600)

    # negative controls of U1: with the as-built deviation switched on, the same invariants must FAIL on the model
    def u1_negative(module, flag, expect):
        with open(os.path.join(ctx.specdir, module + ".cfg")) as fh:
            txt = fh.read()
        cfg = "%s_neg_%s.cfg" % (module, flag)
        write(os.path.join(ctx.specdir, cfg), re.sub(flag + r"\s*=\s*FALSE", flag + " = TRUE", txt))
        r = ctx.tlc(module, cfg, workers=2, timeout=300)
        if not (set(r.violated_invariants) & set(expect)):
            print(r.out[-2000:])
            raise vlib.Infra("negative control: %s with %s = TRUE does not violate any of %s (vacuous model?)" % (module, flag, expect))
        return module + ":" + flag, sorted(set(r.violated_invariants))

    ctx.overlay()   # built once, before the recorder threads start
    pool = ThreadPoolExecutor(max_workers=12)
    u1_futs = [pool.submit(u1, m) for m in ("AuthToken", "AuthCode", "AuthBasic", "AuthApiKey")]
    keys_fut = pool.submit(make_keys, ctx)
    neg_futs = [pool.submit(u1_negative, "AuthToken", "DEV_SerialTruncated16", ["AcceptOnlyIssuedUnexpired"]),
                pool.submit(u1_negative, "AuthBasic", "DEV_LoginLowerNotFold", ["LoginCaseInsensitiveUnique", "UniqueAnswerIsTrue", "WrongPasswordNever"]),
                pool.submit(u1_negative, "AuthApiKey", "DEV_ApiKeyPanicsOnShortDecode", ["ApiKeyNeverPanics"])]

    # ------------------------------------------------------------------ inputs generated by TLC
    gen, _ = gen_exhaustive(ctx, "m3", 6, False, False)
    classes = gen["classes"]
    code_inputs = []   # (max_retries, tag, rows)
    code_inputs.append((3, "exh", gen["code_exh"]))
    code_inputs.append((2, "exh", gen_exhaustive(ctx, "m2", 5, False, False)[0]["code_exh"]))
    code_inputs.append((1, "exh", gen_exhaustive(ctx, "m1", 4, False, False)[0]["code_exh"]))
    if thorough:
        code_inputs.append((3, "exh-age", gen_exhaustive(ctx, "m3a", 6, True, False)[0]["code_exh"]))
        code_inputs.append((3, "exh-prev", gen_exhaustive(ctx, "m3p", 6, False, True)[0]["code_exh"]))
        code_inputs.append((2, "exh-age", gen_exhaustive(ctx, "m2a", 5, True, False)[0]["code_exh"]))
    nsim_code, nsim_basic = (1200, 500) if thorough else (150, 60)
    sim_code, _ = gen_simulated(ctx, "AuthCodeGen", "code", nsim_code, 14,
                                '  Creds = {"c1", "c2"}\n  CodeUids = {"u1", "u2"}\n  MaxRetries = 3\n  MaxCodes = 8\n  MaxSteps = 14\n')
    code_inputs.append((3, "sim", sim_code))
    sim_code2, _ = gen_simulated(ctx, "AuthCodeGen", "code", nsim_code // 3, 10,
                                 '  Creds = {"c1", "c2"}\n  CodeUids = {"u1", "u2"}\n  MaxRetries = 1\n  MaxCodes = 8\n  MaxSteps = 10\n')
    code_inputs.append((1, "sim", sim_code2))
    sim_basic, _ = gen_simulated(ctx, "AuthBasicGen", "basic", nsim_basic, 8,
                                 '  BUids = {"u1", "u2", "u3"}\n  Families = {"fa", "fb"}\n  Variants = {1, 2, 3}\n  LowerSplit = {}\n'
                                 '  Passwords = {"p1", "p2"}\n  MaxBSteps = 8\n  BLives = {0}\n')
    basic_rows = [dict(r, src="exh") for r in gen["basic_exh"]] + [dict(r, src="sim") for r in sim_basic]

    p_classes = os.path.join(ctx.scratch, "in_classes.ndjson")
    vlib.write_ndjson(p_classes, classes)
    p_basic_in = os.path.join(ctx.scratch, "in_basic.ndjson")
    vlib.write_ndjson(p_basic_in, basic_rows)
    p_keys, nkeys = keys_fut.result()

    # ------------------------------------------------------------------ recording from the REAL code (in parallel)
    outs = []

    def rec(pkg, test, out_name, env):
        path = os.path.join(ctx.scratch, out_name)
        e = {"VERIF_OUT": path}
        e.update(env)
        _, wall = ctx.go_test_must_run(pkg, test, env=e, timeout=1500)
        with lock:
            outs.append(path)
            if os.path.exists(path + ".http"):      # second recorder of the same package
                outs.append(path + ".http")
        return wall

    futs = [pool.submit(rec, "./auth/token/", "TestVerifC12Token", "v_token.ndjson", {"VERIF_IN": p_classes}),
            pool.submit(rec, "./", "TestVerifC12(ApiKey|HttpAuth)", "v_apikey.ndjson", {"VERIF_IN": p_keys}),
            pool.submit(rec, "./auth/basic/", "TestVerifC12Basic", "v_basic.ndjson",
                        {"VERIF_IN": p_basic_in, "VERIF_C12_FAMSTRIDE": 1 if thorough else 3})]
    for k, (maxr, tag, rows) in enumerate(code_inputs):
        p_in = os.path.join(ctx.scratch, "in_code_%d.ndjson" % k)
        vlib.write_ndjson(p_in, [dict(r, src=tag) for r in rows])
        shards = 8 if ("age" in tag or tag == "sim") and len(rows) > 400 else 1
        for s in range(shards):
            futs.append(pool.submit(rec, "./auth/code/", "TestVerifC12Code", "v_code_%d_%d.ndjson" % (k, s),
                                    {"VERIF_IN": p_in, "VERIF_C12_MAXRETRIES": maxr, "VERIF_C12_SHARD": "%d/%d" % (s, shards)}))
    u1_res = dict(f.result() for f in u1_futs)
    for m, r in u1_res.items():
        vlib.log("U1 %s: %d states generated, %d distinct, %.1fs" % (m, r.generated, r.distinct, r.wall))
    rec_wall = [f.result() for f in futs]
    negatives = dict(f.result() for f in neg_futs)
    vlib.log("U1 negative controls (as-built switch on => model violates): %s" % negatives)
    pool.shutdown()

    vec = os.path.join(ctx.specdir, "c12_vectors.ndjson")
    with open(vec, "w") as out:
        for p in sorted(outs):
            with open(p) as fh:
                for line in fh:
                    out.write(line)
    vectors = vlib.read_ndjson(vec)

    # ------------------------------------------------------------------ verdict by TLC
    r2, fails, divs = vlib.run_vector_monitor(ctx, "Monitor_C12", "c12_vectors.ndjson", timeout=1800)
    vlib.log("monitors: %d records, %d with monitor failures, %d with divergences, %.1fs" % (len(vectors), len(fails), len(divs), r2.wall))

    # observation (not a verdict): the same code sequences against the as-intended age check
    code_vecs = [v for v in vectors if v["op"] == "code"]
    vlib.write_ndjson(os.path.join(ctx.specdir, "c12_code_vectors.ndjson"), code_vecs)
    with open(os.path.join(ctx.specdir, "Monitor_C12.cfg")) as fh:      # same as-built switches, except the age check
        cfg_txt = fh.read()
    cfg_txt = re.sub(r"DEV_CodeNoAgeCheckOnGuess\s*=\s*\w+", "DEV_CodeNoAgeCheckOnGuess = FALSE", cfg_txt)
    write(os.path.join(ctx.specdir, "Monitor_C12_codeage.cfg"), cfg_txt.replace('"c12_vectors.ndjson"', '"c12_code_vectors.ndjson"'))
    _, _, age_divs = vlib.run_vector_monitor(ctx, "Monitor_C12", "c12_code_vectors.ndjson", cfg="Monitor_C12_codeage.cfg", timeout=900)
    over_age = [code_vecs[k - 1] for k, _ in age_divs]

    def brief(v, step=None):
        op = v["op"]
        if op == "httpauth":
            b = {k: v[k] for k in ("op", "cls", "pos", "via", "curKey", "curSerial", "refKey", "refSerial", "ok", "err", "iuid", "ruid")}
            b["tok"] = bytes(v["tok"]).hex()
            return b
        if op == "token":
            b = {k: v[k] for k in ("op", "cls", "pos", "curKey", "curSerial", "refKey", "refSerial", "ok", "err", "iuid", "ilvl", "ifeat", "ruid", "rlvl", "rfeat")}
            b["tok"] = bytes(v["tok"]).hex()
            b["issued"] = bytes(v["ref"]).hex()
            return b
        if op == "apikey":
            b = {k: v[k] for k in ("op", "cls", "pos", "out", "root", "refSalt", "curSalt", "decErr")}
            b["text"] = "".join(chr(c) for c in v["txt"])
            b["derived_from"] = base64.urlsafe_b64encode(bytes(v["ref"])).decode()
            return b
        if op == "code":
            steps = [("%s(%s%s)%s" % (s["a"], s["c"], ("," + s["g"]) if s["g"] else "", "=ok" if s["ok"] else ("=" + s["err"] if s["err"] else "")))
                     for s in v["steps"][: (step or len(v["steps"]))]]
            return {"op": "code", "src": v["src"], "max_retries": v["max"], "creds": v["creds"], "steps": steps}
        if op == "basic":
            steps = []
            for s in v["steps"][: (step or len(v["steps"]))]:
                steps.append("%s(%s%s%s)%s" % (s["a"], s["u"] + " " if s["u"] else "", repr(hexname(s["text"])) if s["a"] not in ("del", "expire") else "",
                                               "," + s["p"]["id"] if s["p"]["id"] else "", "=ok" + (":" + s["uid"] if s["uid"] else "") if s["ok"] else "=" + s["err"]))
            return {"op": "basic", "src": v["src"], "family_class": v["cls"], "steps": steps}
        return v

    for k, mons in fails:
        v = vectors[k - 1]
        for m in mons:
            name, _, idx = m.partition("#")
            step = int(idx) if idx else None
            if v["op"] == "httpauth":
                ctx.fail(name, brief(v), site="server/http.go:authHttpRequest", input_class=v["cls"])
            elif v["op"] == "token":
                cls = v["cls"]
                if cls == "wrong-serial" and (v["refSerial"] - v["curSerial"]) % 65536 == 0:
                    cls = "wrong-serial-equal-mod-65536"
                ctx.fail(name, brief(v), site="server/auth/token/auth_token.go:Authenticate", input_class=cls)
            elif v["op"] == "apikey":
                ctx.fail(name, brief(v), site="server/api_key.go:checkAPIKey", input_class=v["cls"])
            elif v["op"] == "exchange":
                ctx.fail(name, v, site="server/session.go:onLogin", input_class=("nologin" if v["nologin"] else "full") + ("+missing" if v["missing"] else ""))
            elif v["op"] == "code":
                ctx.fail(name, dict(brief(v, step), step=step), site="server/auth/code/auth_code.go:Authenticate", input_class=v["src"])
            elif v["op"] == "basic":
                s = v["steps"][step - 1]
                site = {"add": "AddRecord", "update": "UpdateRecord", "unique": "IsUnique", "auth": "Authenticate"}.get(s["a"], s["a"])
                ctx.fail(name, dict(brief(v, step), step=step), site="server/auth/basic/auth_basic.go:" + site, input_class=v["cls"])
            else:
                ctx.fail(name, v, site="server/auth/basic/auth_basic.go", input_class=v["op"])
    for k, what in divs:
        ctx.divergences.append({"vector": brief(vectors[k - 1]), "what": what})

    # ------------------------------------------------------------------ coverage
    ops = collections.Counter(v["op"] for v in vectors)
    tok_cls = collections.Counter(v["cls"] for v in vectors if v["op"] == "token")
    key_cls = collections.Counter(v["cls"] for v in vectors if v["op"] == "apikey")
    missing = [c["cls"] for c in classes if tok_cls[c["cls"]] == 0]
    if missing:
        raise vlib.Infra("token classes of the specification not exercised by the recorder: %s" % missing)
    code_steps = sum(len(v["steps"]) for v in vectors if v["op"] == "code")
    basic_steps = sum(len(v["steps"]) for v in vectors if v["op"] == "basic")
    accepted = {
        "token": sum(1 for v in vectors if v["op"] == "token" and v["ok"]),
        "apikey": sum(1 for v in vectors if v["op"] == "apikey" and v["out"] == "valid"),
        "apikey_panics": sum(1 for v in vectors if v["op"] == "apikey" and v["out"] == "panic"),
        "code_guesses": sum(1 for v in vectors if v["op"] == "code" for s in v["steps"] if s["a"] == "guess" and s["ok"]),
        "basic_logins": sum(1 for v in vectors if v["op"] == "basic" for s in v["steps"] if s["a"] == "auth" and s["ok"]),
    }
    refused = {
        "token": ops["token"] - accepted["token"],
        "apikey": ops["apikey"] - accepted["apikey"],
        "code_guesses": sum(1 for v in vectors if v["op"] == "code" for s in v["steps"] if s["a"] == "guess" and not s["ok"]),
        "basic_logins": sum(1 for v in vectors if v["op"] == "basic" for s in v["steps"] if s["a"] == "auth" and not s["ok"]),
    }
    dead = sum(1 for v in vectors if v["op"] == "code" and sum(1 for s in v["steps"] if s["a"] == "guess" and not s["ok"]) >= v["max"])
    u1_states = sum(r.distinct for r in u1_res.values())
    u1_gen = sum(r.generated for r in u1_res.values())
    ctx.cov.update({
        "states": u1_states + r2.distinct, "transitions": u1_gen + r2.generated,
        "traces_validated_against_impl": len(vectors),
        "evaluations": ops["token"] + ops["httpauth"] + ops["apikey"] + code_steps + basic_steps,
        "distinct_nontrivial": ops["token"] + ops["httpauth"] + ops["apikey"] + ops["code"] + ops["basic"],
        "rule": "token: per issued token every single-bit flip of the 50 bytes, every truncation, extensions, seeded multi-bit flips, "
                "splices, 4 foreign keys, 6 other serial numbers, crafted/real expiries, levels above root, random strings, under %d key/serial "
                "configuration(s); the same classes for 3 tokens through the real authHttpRequest (5 transports); API key: per keygen key every bit flip, %s character substitution, truncations, extensions, CR/LF-laced texts, "
                "other salt, all 256 version and is-root bytes, random strings; reset code: EVERY sequence of length max_retries+3 over "
                "{issue, right guess, wrong guess}%s for max_retries 1..3 plus TLC-simulated behaviours with 2 credentials, ageing, stale and "
                "foreign codes; login: all 9 ordered variant pairs x %s of 15 login families (ASCII, Unicode, Unicode special casing) plus "
                "TLC-simulated behaviours; every record counts as non-trivial"
                % (3 if thorough else 1, "every" if thorough else "every 8th (seeded)",
                   " (thorough: also with ageing / with the previous code)" if thorough else "", "all" if thorough else "a third"),
        "exhaustive": bool(thorough),
        "per_op": dict(ops), "token_classes": dict(tok_cls), "apikey_classes": dict(key_cls),
        "code_traces": ops["code"], "code_steps": code_steps, "code_traces_reaching_max_wrong": dead,
        "basic_traces": ops["basic"], "basic_steps": basic_steps,
        "accepted": accepted, "refused": refused, "keygen_keys": nkeys,
        "observations": {
            "code_sequences_where_an_over_age_code_was_accepted": len(over_age),
            "note": "code.Authenticate does not look at the age of the entry (DEV_CodeNoAgeCheckOnGuess); outside the literal statement of C12, "
                    "reported in known_findings_c12.notes.md",
            "apikey_inputs_that_panic_checkAPIKey": accepted["apikey_panics"]},
        "model": {m: {"generated": r.generated, "distinct": r.distinct, "wall_s": round(r.wall, 1)} for m, r in u1_res.items()},
        "u1_negative_controls": negatives,
        "monitor_run": {"module": "Monitor_C12", "records": len(vectors), "wall_s": round(r2.wall, 1)},
        "recorder_wall_s": round(max(rec_wall), 1),
    })
    ctx.assumptions += [
        "HMAC-SHA256, HMAC-MD5 and bcrypt are trusted: the specification treats a signature as an uninterpreted injective function of (key, signed bytes); "
        "keys are compared as HMAC keys (a key padded with zero bytes up to the 64-byte block is the same HMAC key)",
        "bcrypt reads the first 72 bytes of a password; 'wrong password' means different within those bytes (the recorder observes that a 72-byte password plus a suffix logs in)",
        "the persistent cache and the auth table behave like server/db/memadp (REPLACE renews the creation time, unique login string compared exactly)",
        "reset-code lifetime is scaled to 20 ms by overwriting the handler's lifetime field after the real Init (Init only takes whole seconds)",
        "guess sequences are sequential: concurrent guesses against one code (Get and Upsert/Delete are separate store calls) are not explored",
        "a panic of checkAPIKey is recorded as 'not accepted' (net/http recovers it per connection)",
    ]
    pick = lambda op, pred=lambda v: True: next((brief(v) for v in vectors if v["op"] == op and pred(v)), None)
    samples = [s for s in (pick("token", lambda v: v["cls"] == "field-bit"), pick("token", lambda v: v["cls"] == "extended"),
                           pick("apikey", lambda v: v["cls"] == "short-decode" and v["out"] == "panic"),
                           pick("code", lambda v: v["src"] == "sim"), pick("basic", lambda v: v["src"] == "exh")) if s]
    return ctx.finish(level="model_checking", samples=samples)
