"""C13 — no client input can crash the server or leave a request unanswered.

Inputs: (a) every abstract message of spec/Session.tla (the universe TLC prints) in every session state (fresh, after hi,
logged in as auth user / as root, attached to me + group + p2p), plus mutants of representative messages of every kind with
boundary and seeded random field values (wrong JSON types, nulls, ill-formed topic names, huge/negative numbers, unknown
schemes, deep nesting, extra.attachments, Drafty contents); (b) garbage and truncated byte strings; (c) under several server
configurations (calls / validators / media handler present or absent).  The World runs in child processes, every input is
journaled before it is sent; Monitor_C13.tla decides on the recorded observations, with Session.tla classifying the inputs.
"""
import base64, collections, json, os, random, re
import vlib
from props import c11

STATES = ["fresh", "hi", "auth", "root", "authatt", "rootatt"]
LOGGED = ["auth", "root", "authatt", "rootatt"]
BLANK = {"k": "-", "v": "-", "sch": "-", "sec": "-", "usr": "-", "lg": "-", "tmp": "-", "st": "-", "t": "-", "w": "-", "o": "none"}


def M(k, **kw):
    d = dict(BLANK)
    d["k"] = k
    d.update(kw)
    return d


# representative well-formed message per kind (the base of the mutants) and the states it is mutated in
BASES = {
    "hi": (M("hi", v="A"), ["fresh", "hi", "auth"]),
    "login": (M("login", sch="token", sec="right"), ["hi", "auth"]),
    "acc": (M("acc", usr="new", lg="F", sch="basic", tmp="none", st="F"), ["hi", "auth", "root"]),
    "sub": (M("sub", t="grp", w="none"), ["auth", "authatt", "rootatt"]),
    "leave": (M("leave", t="grp", w="none"), ["auth", "authatt", "rootatt"]),
    "pub": (M("pub", t="grp", w="forged"), ["auth", "authatt", "rootatt"]),
    "get": (M("get", t="grp", w="desc"), ["auth", "authatt", "rootatt"]),
    "set": (M("set", t="grp", w="desc"), ["auth", "authatt", "rootatt"]),
    "del": (M("del", t="grp", w="msg"), ["auth", "authatt", "rootatt"]),
    "note": (M("note", t="grp", w="read"), ["auth", "authatt", "rootatt"]),
}
# field -> JSON type expected by the Go struct (datamodel.go): s string, i int, b bool, y []byte (base64), S []string, o object,
# O []object, m map, a any
FIELDS = {
    "hi": {"id": "s", "ver": "s", "ua": "s", "dev": "s", "lang": "s", "platf": "s", "bkg": "b"},
    "acc": {"id": "s", "user": "s", "tmpscheme": "s", "tmpsecret": "y", "status": "s", "authlevel": "s", "scheme": "s", "secret": "y",
            "login": "b", "tags": "S", "desc": "o", "cred": "O"},
    "login": {"id": "s", "scheme": "s", "secret": "y", "cred": "O"},
    "sub": {"id": "s", "topic": "s", "set": "o", "get": "o"},
    "leave": {"id": "s", "topic": "s", "unsub": "b"},
    "pub": {"id": "s", "topic": "s", "noecho": "b", "head": "m", "content": "a"},
    "get": {"id": "s", "topic": "s", "what": "s", "desc": "o", "sub": "o", "data": "o", "del": "o"},
    "set": {"id": "s", "topic": "s", "desc": "o", "sub": "o", "tags": "S", "cred": "o"},
    "del": {"id": "s", "topic": "s", "what": "s", "delseq": "O", "user": "s", "cred": "o", "hard": "b"},
    "note": {"topic": "s", "what": "s", "seq": "i", "unread": "i", "event": "s", "payload": "a"},
    "extra": {"attachments": "S", "obo": "s", "authlevel": "s"},
}
WRONG = {
    "s": [123, {"a": 1}, [1], True, 1.5],
    "i": ["x", 1.5, {"a": 1}, True, [1], 1e30],
    "b": ["yes", 1, {"a": 1}, [True]],
    "y": ["!!not base64!!", 12, {"a": 1}, ["x"], [300], True],   # NB: a JSON array of small numbers IS a valid []byte
    "S": ["x", [1], {"a": 1}, 7, [["a"]]],
    "o": ["x", [1], 5, True],
    "O": ["x", {"a": 1}, [1], ["x"], 5],
    "m": ["x", [1], 5, True],
}
# clear-cut ill-formed or non-existent topic names
BADNAMES = ["", "zz", "g", "grp", "usr", "p2p", "chn", "zzzzzz", "grp!", "usrAAAA", "usr!!!!", "p2pAAAAAAAA", "p2p", "ME", "me ", " me",
            "grpVerifNoSuch", "chnVerifNoSuch", "usrVerifNoSuch", "p2pVerifNoSuchVerifNoSuch", "$LONG", "grp\u0000x", "éééé", "grp/../x",
            "newVerifX", "nchVerifX", "slf", "sysx"]
INTS = [0, -1, 1, 2**31 - 1, 2**31, -2**31, 2**53, 2**63 - 1, -2**63, 100000]
STRS = ["", " ", "$HUGE", "\u0000", "👩‍👩‍👧", "a\"b\\c", "../../etc/passwd", "␡", "null", "<script>", "%s%s%n"]
SCHEMES = ["", "basic ", "BASIC", "anonymous", "anon", "rest", "code", "token ", "reset", "verifnosuchscheme", "$HUGE"]
VERSIONS = ["0", "0.0", "0.19", "0.18", "999999.999999", "v", "v0.22", "1.", ".1", "0.22.33.44", "-1.2", "0.22-rc1", "1e5", " 0.22", "0x16.0x16"]


def b64(b):
    return base64.b64encode(b).decode()


def drafty_contents(rng, n_random):
    """Drafty message contents with fmt/ent index edge cases: [(label, content)]."""
    txt = "Hello 👩‍👩‍👧 wörld é!"
    out = [
        ("plain", "just text"), ("empty-string", ""), ("null", None), ("number", 5), ("array", [1, 2]), ("bool", True),
        ("empty-doc", {}), ("txt-only", {"txt": txt}), ("txt-number", {"txt": 5}), ("txt-null", {"txt": None}),
        ("fmt-not-array", {"txt": txt, "fmt": "x"}), ("fmt-of-strings", {"txt": txt, "fmt": ["x", 1]}), ("ent-not-array", {"txt": txt, "ent": {"a": 1}}),
        ("fmt-null-entry", {"txt": txt, "fmt": [None]}), ("ent-null-entry", {"txt": txt, "fmt": [{"at": 0, "len": 1, "key": 0}], "ent": [None]}),
        ("ent-data-not-object", {"txt": txt, "fmt": [{"at": 0, "len": 1, "key": 0}], "ent": [{"tp": "LN", "data": "x"}]}),
        ("no-txt-with-fmt", {"fmt": [{"at": 0, "len": 5, "tp": "ST"}]}),
        ("attachment", {"txt": " ", "fmt": [{"at": -1, "len": 0, "key": 0}], "ent": [{"tp": "EX", "data": {"mime": "image/png", "name": "a.png", "val": "AAAA"}}]}),
        ("attachment-no-txt", {"fmt": [{"at": -1}], "ent": [{"tp": "EX", "data": {"mime": "x/y"}}]}),
        ("mention", {"txt": "@bob hi", "fmt": [{"at": 0, "len": 4, "key": 0}], "ent": [{"tp": "MN", "data": {"val": "usrAAA"}}]}),
        ("quote", {"txt": "a b", "fmt": [{"at": 0, "len": 3, "tp": "QQ"}, {"at": 0, "len": 1, "tp": "ST"}]}),
        ("form", {"txt": "Yes No", "fmt": [{"at": 0, "len": 6, "tp": "FM"}, {"at": 0, "len": 3, "key": 0}, {"at": 4, "len": 2, "key": 1}],
                  "ent": [{"tp": "BN", "data": {"name": "y", "act": "pub"}}, {"tp": "BN", "data": {"name": "n", "act": "url", "ref": "http://x"}}]}),
        ("image", {"txt": " ", "fmt": [{"at": 0, "len": 1, "key": 0}], "ent": [{"tp": "IM", "data": {"mime": "image/jpeg", "val": "AAAA", "width": 1, "height": 1}}]}),
        ("video-call", {"txt": " ", "fmt": [{"at": 0, "len": 1, "key": 0}], "ent": [{"tp": "VC", "data": {"state": "started", "duration": -5}}]}),
        ("deep-data", {"txt": "x", "fmt": [{"at": 0, "len": 1, "key": 0}], "ent": [{"tp": "LN", "data": {"url": {"a": {"b": {"c": [1, [2, [3]]]}}}}}]}),
        ("long-txt", {"txt": "ab" * 4000, "fmt": [{"at": 3000, "len": 2000, "tp": "ST"}]}),
        ("only-combining", {"txt": "́́́", "fmt": [{"at": 0, "len": 3, "tp": "EM"}]}),
        ("zwj-chain", {"txt": "‍" * 50, "fmt": [{"at": 10, "len": 10, "tp": "ST"}]}),
        ("surrogates", {"txt": "😀" * 20, "fmt": [{"at": 19, "len": 1, "tp": "ST"}, {"at": 20, "len": 1, "tp": "EM"}]}),
    ]
    n = 8  # grapheme length of a short text
    short = "abcdéfgh"
    for at in [-2, -1, 0, 1, n - 1, n, n + 1, 1000, 2**31, -2**31]:
        for ln in [-1, 0, 1, n, n + 1, 1000, 2**31]:
            out.append(("span-at%d-len%d" % (at, ln), {"txt": short, "fmt": [{"at": at, "len": ln, "tp": "ST"}]}))
    # 64-bit boundaries: at + len must not wrap around
    for at in [1, n - 1, n, n + 1, 2000, 2**62]:
        for ln in [2**63 - 1, 2**63 - 1 - at, 2**63 - at, 2**63 - 1024, 2**62]:
            out.append(("span64-at%d-len%d" % (at, ln), {"txt": short, "fmt": [{"at": at, "len": ln, "tp": "ST"}]}))
            out.append(("span64k-at%d-len%d" % (at, ln), {"txt": short, "fmt": [{"at": at, "len": ln, "key": 0}], "ent": [{"tp": "LN", "data": {"url": "http://x"}}]}))
    for key in [-1, 0, 1, 2, 1000, 2**31]:
        out.append(("key%d" % key, {"txt": short, "fmt": [{"at": 0, "len": 2, "key": key}], "ent": [{"tp": "LN", "data": {"url": "http://x"}}]}))
        out.append(("key%d-noent" % key, {"txt": short, "fmt": [{"at": 0, "len": 2, "key": key}]}))
    for tp in ["", "ZZ", "BR", "HD", "RW", "HL", "CO", "DL", "ST", 5, None]:
        out.append(("tp-%s" % tp, {"txt": short, "fmt": [{"at": 1, "len": 3, "tp": tp}]}))
    out.append(("at-float", {"txt": short, "fmt": [{"at": 1.5, "len": 2.5, "tp": "ST"}]}))
    out.append(("at-string", {"txt": short, "fmt": [{"at": "1", "len": "2", "tp": "ST"}]}))
    out.append(("overlap", {"txt": short, "fmt": [{"at": 0, "len": 5, "tp": "ST"}, {"at": 3, "len": 5, "tp": "EM"}, {"at": 4, "len": 1, "tp": "DL"}]}))
    out.append(("nested-same", {"txt": short, "fmt": [{"at": 0, "len": 8, "tp": "ST"}] * 40}))
    tps = ["ST", "EM", "DL", "CO", "BR", "LN", "MN", "HT", "HD", "IM", "EX", "FM", "BN", "RW", "QQ", "VC", "AU", "VD", "ZZ", ""]
    for r in range(n_random):
        ln = rng.choice([0, 1, 3, 8, 30])
        t = "".join(rng.choice(["a", " ", "é", "é", "😀", "‍", "\n", "👩‍👧"]) for _ in range(ln))
        fmt = []
        for _ in range(rng.randint(0, 5)):
            f = {"at": rng.choice([-1, 0, 1, 2, 5, ln, ln + 1, rng.randint(-3, 40)]), "len": rng.choice([0, 1, 2, ln, ln + 2, rng.randint(-2, 40)])}
            if rng.random() < 0.5:
                f["tp"] = rng.choice(tps)
            else:
                f["key"] = rng.choice([0, 1, 2, -1, 7])
            fmt.append(f)
        ent = [{"tp": rng.choice(tps), "data": rng.choice([{}, {"val": "x"}, {"url": "http://x"}, {"mime": "image/png", "val": "AA=="}, None, "x"])}
               for _ in range(rng.randint(0, 3))]
        doc = {"txt": t}
        if fmt or rng.random() < 0.3:
            doc["fmt"] = fmt
        if ent:
            doc["ent"] = ent
        out.append(("random-%d" % r, doc))
    return out


def raw_inputs(rng, n_random):
    """Byte strings: [(label, bytes, demand)]."""
    good = b'{"pub":{"id":"x1","topic":"grpVerifNoSuch","content":{"txt":"hi","fmt":[{"at":0,"len":2,"tp":"ST"}]},"head":{"mime":"text/x-drafty"}},"extra":{"obo":"usrAAAA"}}'
    out = [("netprobe", b"1", "reply"), ("empty", b"", "err"), ("null", b"null", "err"), ("empty-object", b"{}", "err"), ("empty-array", b"[]", "err"),
           ("number", b"0", "err"), ("string", b'"hi"', "err"), ("true", b"true", "err"), ("unknown-key", b'{"zzz":{"id":"1"}}', "err"),
           ("kind-null", b'{"hi":null}', "err"), ("kind-number", b'{"hi":5}', "err"), ("kind-array", b'{"pub":[1]}', "err"), ("kind-string", b'{"sub":"x"}', "err"),
           ("extra-only", b'{"extra":{"obo":"usrAAAA"}}', "err"), ("dup-keys", b'{"hi":{"id":"1","ver":"0.22"},"hi":{"id":"2","ver":"xyz"}}', "reply"),
           ("two-kinds", b'{"hi":{"id":"1","ver":"0.22"},"pub":{"id":"2","topic":"me","content":"x"}}', "reply"),
           ("bom", b"\xef\xbb\xbf" + good, "err"), ("invalid-utf8", b'{"hi":{"id":"\xff\xfe","ver":"0.22"}}', "reply"),
           ("trailing-garbage", good + b"xyz", "err"), ("two-docs", good + good, "err"), ("nul-bytes", b"\x00\x00\x00", "err"),
           ("deep-array", b"[" * 20000, "err"), ("deep-object", b'{"a":' * 20000, "err"), ("deep-valid", b'{"pub":{"id":"d","topic":"me","content":' + b"[" * 9000 + b"]" * 9000 + b"}}", "reply"),
           ("deep-over-limit", b'{"pub":{"id":"d","topic":"me","content":' + b"[" * 10050 + b"]" * 10050 + b"}}", "err"),
           ("huge-number", b'{"note":{"topic":"me","what":"read","seq":' + b"9" * 400 + b"}}", "err"),
           ("huge-exponent", b'{"note":{"topic":"me","what":"read","seq":1e999999}}', "err"),
           ("long-key", b'{"' + b"k" * 100000 + b'":1}', "err"), ("long-string", b'{"hi":{"id":"' + b"i" * 200000 + b'","ver":"0.22"}}', "reply"),
           ("escapes", b'{"hi":{"id":"\\u0000\\ud800","ver":"0.22","ua":"\\ud83d"}}', "reply"), ("ws-only", b" \n\t ", "err"), ("probe-2", b"11", "err")]
    for k in range(1, len(good)):
        out.append(("truncated-%d" % k, good[:k], "err"))
    for r in range(n_random):
        ln = rng.choice([1, 2, 3, 8, 40, 200])
        if rng.random() < 0.5:
            b = bytes(rng.randrange(256) for _ in range(ln))
        else:  # JSON-ish soup
            b = "".join(rng.choice(['{', '}', '[', ']', '"', ':', ',', 'hi', 'pub', 'id', '1', 'null', 'true', '\\', ' ', 'e9', '-', '.']) for _ in range(ln)).encode()
        if b == b"1":
            continue
        try:
            v = json.loads(b.decode("utf-8", "strict"))
            well = isinstance(v, dict) and any(k in v for k in ("hi", "acc", "login", "sub", "leave", "pub", "get", "set", "del", "note"))
        except Exception:
            well = False
        out.append(("random-%d" % r, b, "reply" if well else "err"))
    return out


def gen_inputs(universe, thorough, seed):
    rng = random.Random(seed * 104729 + 13)
    inputs = []

    def add(st, src, m, cls, mut=None, raw=None, dem="", stage=""):
        inputs.append({"i": len(inputs) + 1, "st": st, "src": src, "m": m, "mut": mut or [], "raw": b64(raw) if raw is not None else "",
                       "dem": dem, "stage": stage, "cls": cls})

    # (a1) every abstract message of the model in every session state
    for st in STATES:
        for m in universe:
            add(st, "model", m, c11_desc(m))
    # (a2) mutants
    nwrong = 5 if thorough else 2
    for kind, (base, states) in BASES.items():
        noteish = kind == "note"
        for st in states:
            for fld, ty in FIELDS[kind].items():
                if ty != "a":
                    for val in (WRONG[ty] if thorough else rng.sample(WRONG[ty], min(nwrong, len(WRONG[ty])))):
                        add(st, "mut", base, "%s.%s:wrongtype" % (kind, fld), [{"path": [kind, fld], "val": val}], dem="err", stage="pre")
                add(st, "mut", base, "%s.%s:null" % (kind, fld), [{"path": [kind, fld], "val": None}], dem="none" if noteish else "reply")
                if ty == "s" and fld not in ("topic",):
                    for val in (STRS if thorough else rng.sample(STRS, 3)):
                        add(st, "mut", base, "%s.%s:string" % (kind, fld), [{"path": [kind, fld], "val": val}], dem="none" if noteish else "reply")
            for fld, ty in FIELDS["extra"].items():
                for val in (WRONG[ty] if thorough else rng.sample(WRONG[ty], 2)):
                    add(st, "mut", base, "%s/extra.%s:wrongtype" % (kind, fld), [{"path": ["extra", fld], "val": val}], dem="err", stage="pre")
            add(st, "mut", base, "%s/extra:wrongtype" % kind, [{"path": ["extra"], "val": "x"}], dem="err", stage="pre")
            add(st, "mut", base, "%s/extra:null" % kind, [{"path": ["extra"], "val": None}], dem="none" if noteish else "reply")
            for val in ["", "usr", "usrZZ", "$BOB", "$ALICE", "$HUGE", "\u0000"]:
                add(st, "mut", base, "%s/extra.obo:string" % kind, [{"path": ["extra", "obo"], "val": val}], dem="none" if noteish else "reply", stage="any")
            for val in ["root", "auth", "anon", "zzz", "$HUGE"]:
                add(st, "mut", base, "%s/extra.authlevel:string" % kind, [{"path": ["extra", "authlevel"], "val": val}], dem="none" if noteish else "reply")
            for val in [[], [""], ["x"], ["/v0/file/s/abc.jpg"], ["http://example.com/v0/file/s/AAAAAAAAAAAAAAAAAAAA.png"], ["x"] * 300]:
                add(st, "attach", base, "%s/extra.attachments" % kind, [{"path": ["extra", "attachments"], "val": val}], dem="none" if noteish else "reply")
            if "topic" in FIELDS[kind]:
                for nm in BADNAMES:
                    if kind == "sub" and nm.startswith(("new", "nch")):
                        continue
                    add(st, "mut", base, "%s.topic:badname" % kind, [{"path": [kind, "topic"], "val": nm}], dem="none" if noteish else "err")
    # ill-formed names where the name is looked at by more than the router: {del what=topic} (hub), {note what=call} (session)
    for st in LOGGED:
        for nm in BADNAMES:
            add(st, "mut", BASES["del"][0], "del-topic.topic:badname", [{"path": ["del", "what"], "val": "topic"}, {"path": ["del", "topic"], "val": nm}], dem="err")
            add(st, "mut", BASES["note"][0], "note-call.topic:badname", [{"path": ["note", "what"], "val": "call"}, {"path": ["note", "seq"], "val": 1},
                                                                         {"path": ["note", "event"], "val": "ringing"}, {"path": ["note", "topic"], "val": nm}], dem="none")
            add(st, "mut", BASES["get"][0], "get-sub.topic:badname", [{"path": ["get", "what"], "val": "sub"}, {"path": ["get", "topic"], "val": nm}], dem="err")
            add(st, "mut", BASES["set"][0], "set-sub.topic:badname", [{"path": ["set", "desc"], "val": "$DELETE"}, {"path": ["set", "sub"], "val": {"mode": "JRWPS"}},
                                                                       {"path": ["set", "topic"], "val": nm}], dem="err")
    # attachments on the requests that link them: message, topic description (public), new account
    for st in ["authatt", "rootatt"]:
        for att in [["/v0/file/s/abc.jpg"], ["x"], [""]]:
            for tp in ["$GRP", "me", "$CAROL"]:
                add(st, "attach", BASES["set"][0], "set-public/extra.attachments", [{"path": ["set", "topic"], "val": tp}, {"path": ["set", "desc"], "val": {"public": {"fn": "x", "photo": {"ref": att[0]}}}},
                                                                                   {"path": ["extra", "attachments"], "val": att}], dem="reply")
            add(st, "attach", BASES["sub"][0], "sub-new/extra.attachments", [{"path": ["sub", "topic"], "val": "newVerifAtt"}, {"path": ["sub", "set"], "val": {"desc": {"public": {"fn": "x"}}}},
                                                                            {"path": ["extra", "attachments"], "val": att}], dem="reply")
    # numbers
    numpaths = [("note", ["note", "seq"]), ("note", ["note", "unread"]), ("get", ["get", "data", "since"]), ("get", ["get", "data", "before"]),
                ("get", ["get", "data", "limit"]), ("get", ["get", "del", "limit"]), ("get", ["get", "del", "since"]), ("del", ["del", "delseq", "$0", "low"]),
                ("sub", ["sub", "get", "data", "limit"])]
    for kind, path in numpaths:
        for st in ["authatt", "rootatt", "auth"]:
            for val in INTS:
                if path[-2:] == ["$0", "low"]:
                    for hi in ([0, val] if val > 0 else [0]):
                        rg = {"low": val}
                        if hi:
                            rg["hi"] = hi + 1
                        add(st, "mut", BASES["del"][0], "del.delseq:number", [{"path": ["del", "delseq"], "val": [rg]}], dem="reply")
                    continue
                extra = []
                if kind == "get":
                    extra = [{"path": ["get", "what"], "val": "data del"}]
                if kind == "sub":
                    extra = [{"path": ["sub", "get", "what"], "val": "data"}]
                add(st, "mut", BASES[kind][0], "%s:number" % ".".join(path), extra + [{"path": path, "val": val}], dem="none" if kind == "note" else "reply")
    for st in ["authatt", "rootatt"]:
        for dl in [[], [{}], [{"low": 5, "hi": 1}], [{"low": 1, "hi": 2}] * 2000, [{"low": -5}], [{"hi": 7}]]:
            add(st, "mut", BASES["del"][0], "del.delseq:shape", [{"path": ["del", "delseq"], "val": dl}], dem="reply")
        for what in ["msg", "topic", "sub", "user", "cred", "", "MSG", "msg topic"]:
            for extra in [[], [{"path": ["del", "user"], "val": "usrZZ"}], [{"path": ["del", "user"], "val": "$BOB"}], [{"path": ["del", "cred"], "val": {"meth": "verifv", "val": "x@example.com"}}],
                          [{"path": ["del", "cred"], "val": {"meth": "", "val": ""}}], [{"path": ["del", "topic"], "val": "$DELETE"}]]:
                if what == "user" and not any(x["path"] == ["del", "user"] for x in extra):
                    continue   # {del user} without a user id deletes the session's own account: exercised by the last inputs of the run
                add(st, "mut", BASES["del"][0], "del.what=%s" % what, [{"path": ["del", "what"], "val": what}] + extra, dem="reply")
        for what in ["desc", "sub", "data", "del", "tags", "cred", "desc sub data del tags cred", "", "DESC", "desc  sub", " "]:
            for tp in ["$GRP", "me", "fnd", "$CAROL", "sys"]:
                add(st, "mut", BASES["get"][0], "get.what=%s" % what, [{"path": ["get", "what"], "val": what}, {"path": ["get", "topic"], "val": tp},
                    {"path": ["get", "sub"], "val": rng.choice([None, {"user": "usrZZ"}, {"topic": "zz"}, {"limit": -1}, {"ims": "2020-01-01T00:00:00Z"}])}], dem="reply")
        for sq in [{"desc": {"defacs": {"auth": "XYZ", "anon": "N"}}}, {"desc": {"defacs": {"auth": "JRWPASDO", "anon": "JRWPASDO"}}}, {"desc": {"public": "$HUGE"}},
                   {"desc": {"public": None, "private": "␡", "trusted": {"verified": True}}}, {"sub": {"user": "usrZZ", "mode": "JRW"}}, {"sub": {"user": "$CAROL", "mode": "ZZZ"}},
                   {"sub": {"user": "$BOB", "mode": "N"}}, {"sub": {"mode": ""}}, {"tags": []}, {"tags": ["", "a", "x" * 200, "basic:alice", "verifv:x@y", "\u0000"]}, {"tags": ["t%d" % i for i in range(100)]},
                   {"cred": {"meth": "zz", "val": "x"}}, {"cred": {"meth": "verifv", "val": "no-at-sign"}}, {"cred": {"meth": "verifv", "resp": "000000"}}, {"cred": {}}]:
            for tp in ["$GRP", "me", "fnd", "$CAROL"]:
                muts = [{"path": ["set", "desc"], "val": "$DELETE"}, {"path": ["set", "topic"], "val": tp}] + [{"path": ["set", k], "val": v} for k, v in sq.items()]
                add(st, "mut", BASES["set"][0], "set:%s" % ",".join(sq), muts, dem="reply")
        for sset in [{"sub": {"mode": "ZZZ"}}, {"sub": {"mode": "JRWPASDO"}}, {"desc": {"defacs": {"auth": "N"}}}, {"tags": ["x"]}]:
            for tp in ["$GRP", "me", "fnd", "$CAROL", "newVerifQ", "nchVerifQ"]:
                add(st, "mut", BASES["sub"][0], "sub.set", [{"path": ["sub", "topic"], "val": tp}, {"path": ["sub", "set"], "val": sset},
                                                           {"path": ["sub", "get"], "val": {"what": "desc sub data del tags cred"}}], dem="reply")
        for ev in ["invite", "ringing", "accept", "answer", "offer", "ice-candidate", "hang-up", "", "zzz"]:
            for tp in ["$CAROL", "$GRP", "me"]:
                add(st, "mut", BASES["note"][0], "note.call", [{"path": ["note", "what"], "val": "call"}, {"path": ["note", "event"], "val": ev}, {"path": ["note", "topic"], "val": tp},
                                                               {"path": ["note", "payload"], "val": rng.choice([None, {"sdp": "x"}, "x", [1]])}], dem="none")
        for what in ["data", "kp", "kpa", "kpv", "read", "recv", "", "READ", "$HUGE"]:
            add(st, "mut", BASES["note"][0], "note.what", [{"path": ["note", "what"], "val": what}, {"path": ["note", "payload"], "val": {"x": 1}}], dem="none")
        # video-call publications (head.webrtc) — handled when calls are configured, refused otherwise
        for hd in [{"webrtc": "started"}, {"webrtc": "zzz", "aonly": True}, {"replace": ":1"}, {"replace": ":999999"}, {"replace": "zz"}, {"forwarded": "x"}, {"mime": 5}, {"sender": 5},
                   {"auto": True, "priority": "high", "reply": "1", "thread": "1", "attachments": ["x"], "hashtags": 5, "mentions": {}, "zzz": None}]:
            for tp in ["$GRP", "$CAROL"]:
                add(st, "mut", BASES["pub"][0], "pub.head", [{"path": ["pub", "topic"], "val": tp}, {"path": ["pub", "head"], "val": hd}], dem="reply")
    for st in ["fresh", "hi", "auth"]:
        for v in VERSIONS:
            add(st, "mut", BASES["hi"][0], "hi.ver", [{"path": ["hi", "ver"], "val": v}], dem="reply")
        for fld, val in [("dev", "␡"), ("dev", "d1"), ("lang", "zz_ZZ_#Latn"), ("lang", "en-US"), ("lang", "$HUGE"), ("platf", "ios"), ("bkg", True), ("ua", "TinodeWeb/0.22 (Chrome; x) y/1")]:
            add(st, "mut", BASES["hi"][0], "hi.%s" % fld, [{"path": ["hi", fld], "val": val}], dem="reply")
    for st in ["hi", "auth"]:
        for sch in SCHEMES:
            for sec in [b"", b"x", b":", b"a:", b":b", b"alice:pw", bytes(60), bytes(rng.randrange(256) for _ in range(50))]:
                add(st, "mut", BASES["login"][0], "login.scheme", [{"path": ["login", "scheme"], "val": sch}, {"path": ["login", "secret"], "val": b64(sec)}], dem="reply")
                add(st, "mut", M("acc", usr="self", lg="F", sch="none", tmp="tokR", st="F"), "acc.tmpscheme",
                    [{"path": ["acc", "tmpscheme"], "val": sch}, {"path": ["acc", "tmpsecret"], "val": b64(sec)}, {"path": ["acc", "scheme"], "val": "basic"},
                     {"path": ["acc", "secret"], "val": b64(b":pw12345")}], dem="reply")
        for ln in [0, 1, 10, 49, 50, 51, 100]:
            sec = bytes(rng.randrange(256) for _ in range(ln))
            add(st, "mut", BASES["login"][0], "login.token-bytes", [{"path": ["login", "secret"], "val": b64(sec)}], dem="reply")
        for cred in [[{}], [{"meth": "", "val": ""}], [{"meth": "verifv"}], [{"meth": "email", "val": "a@b.c"}], [{"meth": "tel", "val": "+1"}], [{"meth": "verifv", "val": "x@y", "resp": "zzz"}],
                     [{"meth": "verifv", "val": "a@b", "params": {"x": [1]}}] * 50]:
            add(st, "mut", BASES["acc"][0], "acc.cred", [{"path": ["acc", "cred"], "val": cred}], dem="reply")
            add(st, "mut", BASES["login"][0], "login.cred", [{"path": ["login", "cred"], "val": cred}], dem="reply")
        for d in [{"defacs": {"auth": "ZZ", "anon": "JRWPASDO"}}, {"public": "$HUGE", "private": [1, [2, [3]]]}, {"trusted": {"staff": True}}, {}]:
            add(st, "mut", BASES["acc"][0], "acc.desc", [{"path": ["acc", "desc"], "val": d}], dem="reply")
        for tg in [[""], ["a"], ["x" * 300], ["basic:alice", "verifv:q@w"], ["t%d" % i for i in range(200)]]:
            add(st, "mut", BASES["acc"][0], "acc.tags", [{"path": ["acc", "tags"], "val": tg}], dem="reply")
        for u in ["new", "newX", "usrZZ", "usr", "$BOB", "$HUGE"]:
            for stt in ["", "ok", "suspended", "deleted", "undef", "zzz"]:
                add(st, "mut", BASES["acc"][0], "acc.user/status", [{"path": ["acc", "user"], "val": u}, {"path": ["acc", "status"], "val": stt}], dem="reply")
    # (a3) seeded random multi-field mutants: 1-3 random fields of a random well-formed message get random values of any JSON type
    pool = [None, True, False, 0, 1, -1, 2**31, 2**53, -2**63, 1.5, "", "x", "zz", "me", "fnd", "sys", "new", "nch", "$GRP", "$CAROL", "$BOB", "$HUGE", "\u0000", "␡",
            [], [1], ["x"], [[]], {}, {"a": 1}, {"what": "desc"}, {"mode": "JRWPS"}, {"user": "$CAROL"}, {"limit": -1}, {"low": 1, "hi": 0}, [{"low": 1, "hi": 2**31}],
            "desc sub data del tags cred", "topic", "msg", "sub", "user", "cred", "call", "read", "recv", "kp", "data", "ringing", "accept", "hang-up", "basic", "token", "code", "reset",
            "root", "auth", "anon", "JRWPASDO", "N", "text/x-drafty", {"txt": "x", "fmt": [{"at": -1, "len": 9, "key": 3}]}, b64(b"alice:pw"), b64(bytes(50))]
    kinds = sorted(BASES)
    for r in range(25000 if thorough else 1500):
        kind = rng.choice(kinds)
        base, _ = BASES[kind]
        st = rng.choice(STATES)
        muts, final = [], collections.OrderedDict()
        for _ in range(rng.randint(1, 3)):
            if rng.random() < 0.2:
                fld = rng.choice(sorted(FIELDS["extra"]))
                path, ty = ["extra", fld], FIELDS["extra"][fld]
            else:
                fld = rng.choice(sorted(FIELDS[kind]))
                path, ty = [kind, fld], FIELDS[kind][fld]
            val = rng.choice(pool)
            if path == ["del", "user"] and val == "$CAROL":
                val = "$BOB"   # a root session must not delete carol: the model's inputs of the same session state act on her
            muts.append({"path": path, "val": val})
            final[tuple(path)] = (val, ty)     # a later mutation of the same field wins
        wrong = False
        for val, ty in final.values():
            # does the Go decoder reject this value for this field type?  (null is always accepted)
            okv = val is None or ty == "a" or {
                "s": isinstance(val, str), "i": isinstance(val, int) and not isinstance(val, bool), "b": isinstance(val, bool),
                "y": False, "S": isinstance(val, list) and all(isinstance(x, str) for x in val),
                "o": isinstance(val, dict), "O": isinstance(val, list) and all(isinstance(x, dict) for x in val), "m": isinstance(val, dict)}[ty]
            if ty == "y" and val is not None:
                okv = None   # base64 or not, array of small numbers or not: do not predict
            if ty in ("o", "O") and okv and val not in ({}, []):
                okv = None   # nested fields have types of their own
            if okv is False:
                wrong = True
            elif okv is None and wrong is False:
                wrong = None
        if wrong is True:
            add(st, "mut", base, "random:%s:wrongtype" % kind, muts, dem="err", stage="pre")
        else:
            add(st, "mut", base, "random:%s" % kind, muts, dem="none" if (kind == "note" or wrong is None) else "reply", stage="any")
    # (a4) credential methods x configurations: the e-mail and tel validators are compiled in (registered) but not configured
    # (not initialised) in any of these configurations; "verifv" is configured in the configurations with validators
    meths = ["email", "tel", "verifv", "nosuch", ""]
    well = {"email": "a@example.com", "tel": "+14155550100", "verifv": "v@example.com", "nosuch": "x", "": "x"}
    badvals = ["", "zz", "@", "+", "$HUGE", "\u0000", "a@b@c", "+0"]
    resps = ["$DELETE", "123456", "000000", ""]
    selfacc = M("acc", usr="self", lg="F", sch="none", tmp="none", st="F")
    for st in ["auth", "authatt", "rootatt"]:
        for meth in meths:
            vals = [well[meth]] + (badvals if thorough else rng.sample(badvals, 3))
            for val in vals:
                for resp in (resps if thorough or val == well[meth] else rng.sample(resps, 2)):
                    cred = {"meth": meth, "val": val}
                    if resp != "$DELETE":
                        cred["resp"] = resp
                    add(st, "mut", BASES["set"][0], "cred:set-me/%s" % (meth or "empty"), [{"path": ["set", "desc"], "val": "$DELETE"}, {"path": ["set", "topic"], "val": "me"},
                                                                                        {"path": ["set", "cred"], "val": cred}], dem="reply")
                add(st, "mut", BASES["del"][0], "cred:del-me/%s" % (meth or "empty"), [{"path": ["del", "delseq"], "val": "$DELETE"}, {"path": ["del", "topic"], "val": "me"},
                    {"path": ["del", "what"], "val": "cred"}, {"path": ["del", "cred"], "val": {"meth": meth, "val": val}}], dem="reply")
                for usr in (["$SELF", "$DELETE"] if thorough else ["$SELF"]):
                    add(st, "mut", selfacc, "cred:acc-self/%s" % (meth or "empty"), [{"path": ["acc", "user"], "val": usr},
                        {"path": ["acc", "cred"], "val": [{"meth": meth, "val": val}]}], dem="reply")
    for st in ["hi", "auth"]:
        for meth in meths:
            for val in [well[meth], rng.choice(badvals)]:
                add(st, "mut", BASES["acc"][0], "cred:acc-new/%s" % (meth or "empty"), [{"path": ["acc", "cred"], "val": [{"meth": meth, "val": val}, {"meth": "verifv", "val": "n%d@example.com" % len(inputs)}]}], dem="reply")
    for meth in meths:
        for resp in ["123456", "000000", "", "$HUGE"]:
            for extra in [{}, {"val": well[meth]}]:
                cr = dict({"meth": meth, "resp": resp}, **extra)
                for sec in ["right", "needscred"]:
                    add("hi", "mut", M("login", sch="basic", sec=sec), "cred:login/%s" % (meth or "empty"), [{"path": ["login", "cred"], "val": [cr]}], dem="reply")
    # (a5) replies under interleaving keep their own id: A's {sub} parked inside topicInit, B's request for the same topic
    for cse in ["nogrp", "softdel", "p2pmissing", "load"]:
        for bk in ["sub", "leave", "pub", "getdesc", "setdesc", "deltopic", "delmsg", "note", "all"]:
            for _ in range(3 if thorough else 1):
                inputs.append({"i": len(inputs) + 1, "st": "race", "src": "race", "m": dict(BLANK), "mut": [], "raw": "", "dem": "", "stage": "", "cls": "race:%s/%s" % (cse, bk),
                               "race": {"case": cse, "b": bk}})
    # (a6) topic-name classes for requests of sessions NOT attached to the topic: the hub serves them in helper goroutines
    # (replyOfflineTopicGetDesc / GetSub / SetSub) or itself (topicUnreg); a panic there is a panic of the whole process
    B64 = "ABCDEFGHIJKLMNOPQRSTUVWXYZabcdefghijklmnopqrstuvwxyz0123456789-_"
    def b64name(n):
        return "".join(rng.choice(B64) for _ in range(n))
    names = []
    for n in ([23, 24, 32, 33, 43, 44, 64] if not thorough else range(23, 65)):
        names.append(("p2p-overlong", "p2p" + b64name(n)))
    for n in [1, 11, 16, 21]:
        names.append(("p2p-short", "p2p" + b64name(n)))
    good22 = b64name(22)
    for pos in range(22):
        for bad in (["!"] if not thorough else ["!", "=", "+", "/", " ", "é", "\u0000"]):
            names.append(("p2p-badchar", "p2p" + good22[:pos] + bad + good22[pos + 1:]))
    for n in ([12, 13, 16, 22, 64] if not thorough else range(12, 65)):
        names.append(("usr-overlong", "usr" + b64name(n)))
    good11 = b64name(11)
    for pos in range(11):
        for bad in (["!"] if not thorough else ["!", "=", "+", "/", " ", "é"]):
            names.append(("usr-badchar", "usr" + good11[:pos] + bad + good11[pos + 1:]))
    for pfx in ["grp", "chn", "fnd"]:
        for n in [12, 32, 64, 256, 5000]:
            names.append((pfx + "-overlong", pfx + b64name(n)))
    names += [("zero-id", "usr" + "A" * 11), ("zero-id", "p2p" + "A" * 22), ("zero-id", "$P2PSELFZERO"), ("zero-id", "$P2PZEROSELF"),
              ("self-twice", "$P2PSELF2"), ("self-id", "$SELF"), ("p2p-by-name", "$P2PSELFCAROL"), ("p2p-by-name", "$P2PCAROLSELF"),
              ("p2p-nousers", "p2p" + good22), ("usr-nouser", "usr" + good11)]
    unatt = [("get-desc", "get", [{"path": ["get", "what"], "val": "desc"}]), ("get-sub", "get", [{"path": ["get", "what"], "val": "sub"}]),
             ("get-desc-sub", "get", [{"path": ["get", "what"], "val": "desc sub"}]),
             ("set-desc", "set", []), ("set-sub", "set", [{"path": ["set", "desc"], "val": "$DELETE"}, {"path": ["set", "sub"], "val": {"mode": "JRWPS"}}]),
             ("set-sub-user", "set", [{"path": ["set", "desc"], "val": "$DELETE"}, {"path": ["set", "sub"], "val": {"user": "$CAROL", "mode": "JRW"}}]),
             ("del-topic", "del", [{"path": ["del", "what"], "val": "topic"}, {"path": ["del", "delseq"], "val": "$DELETE"}]),
             ("leave", "leave", []), ("leave-unsub", "leave", [{"path": ["leave", "unsub"], "val": True}]),
             ("note-recv", "note", [{"path": ["note", "what"], "val": "recv"}, {"path": ["note", "seq"], "val": 1}]),
             ("sub", "sub", [])]
    for st in ["auth", "rootatt"]:
        for ncls, nm in names:
            for lbl, kind, muts in unatt:
                if ncls == "p2p-by-name" or ncls == "self-id":
                    dem = "reply"        # well-formed names of (possibly) existing topics addressed in an unusual way
                else:
                    dem = "err"
                add(st, "mut", BASES[kind][0], "unattached:%s/%s" % (lbl, ncls), muts + [{"path": [kind, "topic"], "val": nm}], dem="none" if kind == "note" else dem)
    # (a7) {get} with every combination and order of what-tokens x kinds of topic (attached / not attached / non-existent / p2p / me / fnd)
    toks = ["desc", "sub", "data", "del", "tags", "cred"]
    whats = []
    for mask in range(1, 64):
        sub = [t for i, t in enumerate(toks) if mask >> i & 1]
        whats.append(" ".join(sub))
        if len(sub) > 1:
            sh = sub[:]
            rng.shuffle(sh)
            whats.append(" ".join(sh))
            if thorough:
                whats.append(" ".join(reversed(sub)))
    whats += ["zzz", "desc zzz", "zzz desc", "zzz sub data", "desc desc", "sub sub desc", "data  del", " desc", "desc ", "  ", "desc\tsub", "desc,sub", "DESC", "desc sub data del tags cred zzz",
              "desc sub data del tags cred desc sub data", "cred tags del data sub desc zzz zzz zzz"]
    for st, targets in [("authatt", ["$GRP", "$CAROL", "me", "fnd", "grpVerifNoSuchG"]), ("auth", ["$GRP", "$CAROL", "me", "fnd", "grpVerifNoSuchG", "usrVerifNoSuch"]),
                        ("rootatt", ["$GRP", "me", "sys"])]:
        for tp in targets:
            for w in whats:
                add(st, "mut", BASES["get"][0], "get-what:%s/%d" % (tp.strip("$"), len(w.split())), [{"path": ["get", "what"], "val": w}, {"path": ["get", "topic"], "val": tp}], dem="reply")
    # (b) byte strings
    for lbl, b, dem in raw_inputs(rng, 3000 if thorough else 120):
        for st in (["fresh", "auth", "rootatt"] if thorough else ["fresh", "auth"]):
            add(st, "raw", dict(BLANK), "raw:" + lbl.split("-")[0], raw=b, dem=dem, stage="pre")
    # Drafty contents published to the group / the p2p topic (and rendered by the push payload code, see preview_inputs)
    contents = drafty_contents(rng, 4000 if thorough else 150)
    for lbl, c in contents:
        for st, tp in [("authatt", "$GRP"), ("authatt", "$CAROL")] + ([("rootatt", "$GRP")] if thorough else []):
            add(st, "drafty", BASES["pub"][0], "drafty:" + lbl.split("-")[0],
                [{"path": ["pub", "topic"], "val": tp}, {"path": ["pub", "content"], "val": c}, {"path": ["pub", "head"], "val": {"mime": "text/x-drafty"}}], dem="reply")
    # seeded shuffle inside each state ("in any order"), keeping the states contiguous
    by = collections.OrderedDict((s, []) for s in STATES + ["race"])
    for x in inputs:
        by[x["st"]].append(x)
    out = []
    for s in STATES + ["race"]:
        rng.shuffle(by[s])
        out += by[s]
    # last of all: the session deletes its own account
    out.append({"i": len(inputs) + 1, "st": "rootatt", "src": "mut", "m": BASES["del"][0], "mut": [{"path": ["del", "what"], "val": "user"}, {"path": ["del", "topic"], "val": "$DELETE"},
               {"path": ["del", "hard"], "val": True}], "raw": "", "dem": "reply", "stage": "any", "cls": "del.user-self"})
    out.append({"i": len(inputs) + 2, "st": "authatt", "src": "mut", "m": BASES["del"][0], "mut": [{"path": ["del", "what"], "val": "user"}, {"path": ["del", "topic"], "val": "$DELETE"}],
                "raw": "", "dem": "reply", "stage": "any", "cls": "del.user-self"})
    return out, contents


def c11_desc(m):
    return m["k"] + ":" + ",".join("%s=%s" % (k, v) for k, v in sorted(m.items()) if k != "k" and v != "-" and not (k == "o" and v == "none"))


CONFIGS_QUICK = ["none", "calls+validators+media", "validators"]
CONFIGS_ALL = ["none", "calls", "validators", "media", "calls+validators", "calls+media", "validators+media", "calls+validators+media"]


def run(ctx):
    ctx.also = ("c11",)   # the session environment (zz_verif_c11_*) is shared with C11
    thorough = ctx.tier == "thorough"
    dev = c11.dev_built()
    # the message universe, printed by TLC from Session.tla (as built: the deviations are part of the binding)
    cfg = c11.mc_cfg(ctx, "SessC13Univ", dev, "q", 0, "WIT", True, [])
    r0 = ctx.tlc("Session_MC", cfg, workers=1, timeout=300)
    if not r0.ok:
        raise vlib.Infra("Session_MC (universe listing) failed: " + r0.out[-800:])
    universe = [m for m in c11.parse_alphabet(r0.out, "UNIVERSE") if m["k"] != "conn"]   # a reconnect is not an input to a session
    inputs, contents = gen_inputs(universe, thorough, ctx.seed)
    configs = CONFIGS_ALL if thorough else CONFIGS_QUICK
    inp = os.path.join(ctx.scratch, "c13_in.ndjson")
    vlib.write_ndjson(inp, inputs)
    pin = os.path.join(ctx.scratch, "c13_preview_in.ndjson")
    vlib.write_ndjson(pin, [{"i": i + 1, "cls": "drafty:" + lbl.split("-")[0], "content": c} for i, (lbl, c) in enumerate(contents)])
    vlib.log("inputs: %d per configuration x %d configurations (%s); %d message contents for the preview renderer" % (
        len(inputs), len(configs), collections.Counter(x["src"] for x in inputs).most_common(), len(contents)))

    # ---- recording
    env = {"VERIF_IN": inp, "VERIF_OUT": os.path.join(ctx.scratch, "c13_out.ndjson"), "VERIF_C13_CFGS": ";".join(configs)}
    for k in ("VERIF_C13_SELFTEST", "VERIF_C13_PROCS"):
        if os.environ.get(k):
            env[k] = os.environ[k]
    out, wall = ctx.go_test_must_run("./", "TestVerifC13Run$", env=env, timeout=3000, extra=["-v"])
    m = re.search(r"VERIF_C13 inputs=(\d+) configs=(\d+) batches=(\d+) records=(\d+) deaths=(\d+) recovered_sites=(\d+)", out)
    if not m:
        raise vlib.Infra("C13 recorder did not report: " + out[-1500:])
    deaths, rsites = int(m.group(5)), int(m.group(6))
    recs = vlib.read_ndjson(env["VERIF_OUT"])
    if len(recs) != len(inputs) * len(configs):
        raise vlib.Infra("recorded %d inputs, expected %d" % (len(recs), len(inputs) * len(configs)))
    pout = os.path.join(ctx.scratch, "c13_preview_out.ndjson")
    penv = {"VERIF_IN": pin, "VERIF_OUT": pout}
    if os.environ.get("VERIF_C13_SELFTEST"):
        penv["VERIF_C13_SELFTEST"] = os.environ["VERIF_C13_SELFTEST"]
    ctx.go_test_must_run("./push/fcm/", "TestVerifC13Preview$", env=penv, timeout=900)
    prev = vlib.read_ndjson(pout)
    if len(prev) != len(contents):
        raise vlib.Infra("preview recorder wrote %d of %d" % (len(prev), len(contents)))
    vlib.log("recorded %d inputs in %.1fs (%d child process deaths, %d distinct recovered panic sites); %d previews" % (len(recs), wall, deaths, rsites, len(prev)))

    # ---- verdict by TLC (one run per value of the Validators constant of the model)
    KEEP = ("op", "i", "src", "m", "dem", "stage", "rid", "pre", "fr", "alive", "panic", "confirmed", "hung", "by")
    KEEPR = ("op", "i", "src", "alive", "panic", "hung", "arid", "afr", "brids", "bfr")
    groups = collections.OrderedDict()
    for r in recs:
        groups.setdefault("validators" in r["cfg"], []).append(r)
    blank = dict(BLANK)
    pv = [{"op": "preview", "i": p["i"], "src": "preview", "m": blank, "dem": "", "stage": "", "rid": "", "pre": {"ver": "0", "uid": "", "lvl": "", "att": []},
           "fr": [], "alive": True, "panic": p["panic"], "confirmed": "na", "hung": p["hung"], "by": {"done": False, "code": 0}} for p in prev]
    nfail = ndiv = 0
    mon_states = mon_trans = 0
    first = True
    for val, rs in groups.items():
        full = rs + (prev if first else [])
        slim = [{k: r[k] for k in (KEEPR if r["op"] == "race" else KEEP)} for r in rs] + (pv if first else [])
        first = False
        vlib.write_ndjson(os.path.join(ctx.specdir, "c13_vectors.ndjson"), slim)
        c = {"Validators": "TRUE" if val else "FALSE", "TrackTok": "TRUE"}
        c.update(dev)
        c11.write_cfg(ctx, "Monitor_C13", c, ["INIT Init", "NEXT Next", "CHECK_DEADLOCK FALSE"])
        r2, fails, divs = vlib.run_vector_monitor(ctx, "Monitor_C13", "c13_vectors.ndjson", timeout=2400)
        mon_states += r2.distinct
        mon_trans += r2.generated
        for k, mons in fails:
            v = full[k - 1]
            for mon in mons:
                nfail += 1
                if v["op"] == "race":
                    ctx.fail(mon, {"sequence": v["input"], "case": v["case"], "b": v["bkind"], "config": v["cfg"], "parked": v["parked"], "a_id": v["arid"],
                                   "a_frames": v["afr"], "b_ids": v["brids"], "b_frames": v["bfr"], "panic": v.get("panicv", "")},
                             site=v["site"] or "none", input_class=v["cls"], state="race", config=v["cfg"])
                elif v["op"] == "preview":
                    ctx.fail(mon, {"content_class": v["cls"], "panic": v.get("panicv"), "err": v.get("err")}, site=v["site"] or "none", input_class=v["cls"], config="preview")
                else:
                    ctx.fail(mon, {"input": v["input"], "state": v["st"], "config": v["cfg"], "codes": [f["code"] for f in v["fr"]], "ids": [f["id"] for f in v["fr"]],
                                   "rid": v["rid"], "panic": v.get("panicv", ""), "confirmed": v["confirmed"], "alive": v["alive"], "bystander": v["by"]},
                             site=v["site"] or "none", input_class=v["cls"], state=v["st"], config=v["cfg"])
        for k, what in divs:
            v = full[k - 1]
            ndiv += 1
            ctx.divergences.append({"input": v.get("input"), "state": v.get("st"), "config": v.get("cfg"), "m": c11_desc(v["m"]), "codes": [f["code"] for f in v["fr"]],
                                    "panic": v.get("panicv", ""), "what": what})
    vlib.log("monitors: %d records, %d monitor failures, %d divergences" % (len(recs) + len(prev), nfail, ndiv))
    sigs = collections.Counter((f["monitor"], f.get("site"), f.get("input_class")) for f in ctx.failures)
    bysite = collections.Counter((f["monitor"], f.get("site")) for f in ctx.failures)
    for (mon, site), n in sorted(bysite.items()):
        classes = sorted({c for (m2, s2, c) in sigs if m2 == mon and s2 == site})
        vlib.log("  %-24s site=%-60s %5d  classes: %s" % (mon, site, n, ", ".join(classes)[:400]))
    if os.environ.get("VERIF_C13_KEEP"):
        with open(os.environ["VERIF_C13_KEEP"], "w") as fh:
            json.dump(ctx.failures, fh, default=str)

    races = [r for r in recs if r["op"] == "race"]
    vlib.log("interleavings: %d (A's {sub} parked inside topicInit in %d); replies to B by case/kind: %s" % (
        len(races), sum(1 for r in races if r["parked"]),
        dict(collections.Counter("%s:%s" % (r["case"], ",".join(str(f["code"]) for f in r["bfr"])) for r in races if r["bkind"] != "all" and r["cfg"] == races[0]["cfg"]))))
    for cse in ["nogrp", "softdel", "p2pmissing", "load"]:
        row = {}
        for r in races:
            if r["case"] == cse and r["cfg"] == races[0]["cfg"] and r["bkind"] != "all":
                row[r["bkind"]] = "A:%s B:%s" % (",".join(str(f["code"]) for f in r["afr"]), ",".join(str(f["code"]) for f in r["bfr"]) or "-")
        vlib.log("  interleaving %-10s %s" % (cse, row))
    credstat = collections.defaultdict(collections.Counter)
    for r in recs:
        if r["op"] == "input" and r["cls"].startswith("cred:"):
            credstat[(r["cls"], "validators" in r["cfg"])][",".join(str(f["code"]) for f in r["fr"]) or "-"] += 1
    for (cls, val), c in sorted(credstat.items()):
        vlib.log("  %-26s validators=%-5s %s" % (cls, val, dict(c)))
    if races and not any(r["parked"] for r in races):
        raise vlib.Infra("the interleaving gate never engaged (topicInit made no adapter call?)")
    recs_in = [r for r in recs if r["op"] != "race"]
    answered = sum(1 for r in recs_in if r["fr"])
    bys = sum(1 for r in recs_in if r["by"]["done"])
    dist = len({(r["cls"], r["st"], tuple(sorted(f["code"] for f in r["fr"]))) for r in recs_in})
    ctx.cov.update({
        "states": r0.distinct + mon_states, "transitions": r0.generated + mon_trans,
        "traces_validated_against_impl": len(recs) + len(prev), "evaluations": len(recs) + len(prev), "distinct_nontrivial": dist,
        "rule": "every one of the %d abstract messages of Session.tla in each of %d session states; mutants of one well-formed message per kind (every field x wrong JSON types / null / boundary strings; %d ill-formed topic names; boundary integers; unknown schemes; attachments; call events); %d byte strings (garbage, every truncation of a valid message, deep nesting); %d Drafty contents published and rendered by the real push payload code; each under %d configurations; non-trivial = distinct (input class, state, reply codes)" % (
            len(universe), len(STATES), len(BADNAMES), sum(1 for x in inputs if x["src"] == "raw"), len(contents), len(configs)),
        "exhaustive": False, "inputs_per_config": len(inputs), "configs": configs, "by_source": dict(collections.Counter(r["src"] for r in recs)), "interleavings": len(races), "interleavings_parked": sum(1 for r in races if r["parked"]),
        "answered": answered, "bystander_checks": bys, "child_process_deaths": deaths, "recovered_panic_sites": rsites,
        "reply_codes": {str(k): v for k, v in sorted(collections.Counter(f["code"] for r in recs_in for f in r["fr"]).items())},
        "monitor_run": {"module": "Monitor_C13", "vectors": len(recs) + len(prev)},
    })
    ctx.assumptions += [
        "sessions are websocket-flavoured without a socket: bytes go to Session.dispatchRaw exactly as the read loop hands them over; the websocket frame layer, gRPC and long polling are not exercised",
        "a panic on the session goroutine is recovered by the recorder for throughput; one representative input per panic site is re-run in a child that does not recover (as the real read loops) to confirm the process death",
        "push adapters cannot be configured offline: the World captures receipts with a stub handler, and the real FCM payload renderer (payloadToData -> drafty.PlainText/Preview) is called on the same contents directly",
        "crash-freedom is observed on the explored inputs, not proved",
    ]
    samples = [{k: r[k] for k in ("cls", "st", "cfg", "input", "fr")} for r in (recs_in[0], recs_in[len(recs_in) // 2], recs_in[-1])]
    return ctx.finish(level="model_checking", samples=samples)
