"""C14 — attach, detach, disconnect and delete race without leaks, hangs or lost replies.

U1  spec/Attach.tla (PlusCal, translated): deadlock freedom + invariants on the as-intended model, plus one
    counterexample per as-built deviation DEV_* (regression / non-vacuity of the switches).
E2  harness/server/zz_verif_c14_e2_test.go under -race: concurrent seeded request programs against the real
    hub/topicInit/topic/session code; histories, quiescent attachment tables, goroutine dumps, race reports.
U3  spec/Monitor_C14.tla evaluates the monitors on the recorded vectors (verdict) and the reply-class / in-flight
    order binding to Attach.tla (divergences).
"""
import collections, json, os, re, sys
import vlib

OWNER = {"g1": "u1", "g2": "u2"}
TRACKED = ("sub", "leave", "unsub", "deltopic", "deluser")
JAVA = {"JAVA_TOOL_OPTIONS": "-Xss512m -Xmx6g"}

DEV = ["DEV_ExitAbandonsQueues", "DEV_InitDrainNilDone", "DEV_InitDeletedSilent", "DEV_InitFailBlindTopicDel",
       "DEV_OwnerDelViaMetaSilent", "DEV_PurgeRacesWriter", "DEV_StaleTimeoutUnreg", "DEV_InactiveByeIgnored", "DEV_DeleteFailLeavesPaused"]

# one counterexample per deviation: (name, switches set TRUE, other overrides, expected kind of counterexample)
DEMOS = [
    ("ExitAbandonsQueues", ["DEV_ExitAbandonsQueues"], {"MaxGen": "2", "MaxReq": "1", "TotalReq": "2"}, "EveryAddMatchedByOneDone|EveryRequestAnswered|Deadlock"),
    ("OwnerDelViaMetaSilent", ["DEV_OwnerDelViaMetaSilent"], {"MaxGen": "3", "MaxReq": "2", "TotalReq": "3", "Ops": '{"sub", "del"}',
                                                             "EvictBudget": "0", "SlowBudget": "0", "FaultBudget": "0"}, "EveryRequestAnswered"),
    ("InitDrainNilDone", ["DEV_InitDrainNilDone", "DEV_StaleTimeoutUnreg"], {"MaxGen": "4", "MaxReq": "2", "TotalReq": "4", "Ops": '{"sub", "disc", "del"}',
                                                                             "EvictBudget": "0", "SlowBudget": "0", "FaultBudget": "0"}, "Deadlock"),
    ("InitDeletedSilent", ["DEV_InitDeletedSilent", "DEV_StaleTimeoutUnreg"], {"MaxGen": "3", "MaxReq": "2", "TotalReq": "3", "Ops": '{"sub", "pub"}',
                                                                               "EvictBudget": "0", "FaultBudget": "0"}, "EveryRequestAnswered"),
    ("PurgeRacesWriter", ["DEV_PurgeRacesWriter", "DEV_ExitAbandonsQueues"], {"MaxGen": "3", "MaxReq": "2", "TotalReq": "3", "Ops": '{"sub", "disc"}'}, "Deadlock"),
    # store faults: the owner's delete fails in the store
    ("DeleteFailLeavesPaused", ["DEV_DeleteFailLeavesPaused"], {}, "NoTopicLeftPaused"),
    ("InactiveByeIgnored", ["DEV_InactiveByeIgnored"], {"MaxGen": "3", "MaxReq": "3", "TotalReq": "3", "Ops": '{"sub", "del", "disc"}',
                                                        "EvictBudget": "0", "SlowBudget": "0"}, "TerminatedSessionFullyDetached"),
]


def derive_cfg(ctx, base, name, true_switches=(), overrides=None):
    txt = open(os.path.join(ctx.specdir, base)).read()
    for sw in true_switches:
        txt = txt.replace("%s = FALSE" % sw, "%s = TRUE" % sw)
    for k, v in (overrides or {}).items():
        txt, n = re.subn(r"(?m)^(\s*)%s = .*$" % re.escape(k), r"\g<1>%s = %s" % (k, v), txt)
        if n != 1:
            raise vlib.Infra("cfg override %s not applied" % k)
    with open(os.path.join(ctx.specdir, name), "w") as fh:
        fh.write(txt)
    return name


# ---------------------------------------------------------------------------------------------- race reports
PROTECTED_RE = re.compile(r"\.subs\b|subsLock|sessCache|\.lru\b|lpTracker|terminating|\.status\b|statusChangeBits|"
                          r"h\.topics\s*=[^=]|hub\.topics\s*=[^=]|t\.sessions|topic\.sessions|\.sessions\[")
PROTECTED_FN = re.compile(r"\(\*Session\)\.(addSub|getSub|delSub|countSub|unsubAll)$|"
                          r"\(\*Topic\)\.(isInactive|isDeleted|isReadOnly|isLoaded|markPaused|markDeleted|markLoaded|markReadOnly|statusChangeBits|addSession|remSession)$")


def src_line(path, ln, cache={}):
    if path not in cache:
        try:
            cache[path] = open(path, errors="replace").read().split("\n")
        except OSError:
            cache[path] = []
    lines = cache[path]
    return lines[ln - 1] if 0 < ln <= len(lines) else ""


def parse_races(out):
    """-> list of dicts {a, b, fa, fb, cls, lines}; cls in protected|harness|other; deduplicated by (a, b)."""
    res, seen = [], {}
    for blk in re.findall(r"WARNING: DATA RACE\n(.*?)\n==================", out, re.S):
        accs = re.findall(r"^((?:Previous )?(?:[Rr]ead|[Ww]rite|[Aa]tomic [a-z]+) at 0x[0-9a-f]+ by (?:main )?goroutine \d+:)\n((?:  .*\n      .*\n?)+)", blk, re.M)
        if len(accs) < 2:
            continue
        sites, harness, prot = [], False, False
        for hdr, st in accs[:2]:
            fr = re.findall(r"^  (\S+)\(.*\)\n      (\S+):(\d+)", st, re.M)
            top = None
            for fn, path, ln in fr:
                if top is None and not fn.startswith("runtime.") and not fn.startswith("sync.") and not fn.startswith("internal/"):
                    top = (fn, path, int(ln))
            for fn, path, ln in fr[:4]:
                if "zz_verif" in path or "/memadp/" in path or "verif_hook" in path:
                    harness = True
            if top is None:
                top = ("?", "?", 0)
            fn, path, ln = top
            text = src_line(path, ln)
            short = fn.replace("github.com/tinode/chat/server.", "")
            # `numTopics` sits next to the hub's sync.Map but is a plain statistics counter: not one of the protected structures
            if (PROTECTED_RE.search(text) and "numTopics" not in text) or (PROTECTED_FN.search(short) and "numTopics" not in text and not short.endswith("topicDel") and not short.endswith("topicPut")):
                prot = True
            sites.append({"fn": short, "at": "%s:%d" % (os.path.basename(path), ln), "text": text.strip()[:120], "acc": hdr.split(" at")[0].replace("Previous ", "").lower()})
        a, b = sorted(sites, key=lambda x: x["at"])
        key = (a["at"], b["at"])
        cls = "harness" if harness else ("protected" if prot else "other")
        if key in seen:
            seen[key]["n"] += 1
            continue
        r = {"a": a["at"], "b": b["at"], "fa": a["fn"], "fb": b["fn"], "ta": a["text"], "tb": b["text"], "cls": cls, "n": 1}
        seen[key] = r
        res.append(r)
    return res


def parse_fatal(out):
    """The Go runtime's own detection of an unsynchronised map ('fatal error: concurrent map ...') kills the process; it is an
    observation of the real code like a race report. -> race-like dict (cls protected|harness|other) or None."""
    m = re.search(r"fatal error: (concurrent map [a-z ]+)\n+goroutine \d+ \[running\]:\n((?:.+\n)+)", out)
    if not m:
        return None
    fr = re.findall(r"^(\S+)\(.*\)\n\t(\S+):(\d+)", m.group(2), re.M)
    top, harness = None, False
    for fn, path, ln in fr:
        if top is None and not fn.startswith(("runtime.", "sync.", "internal/")):
            top = (fn, path, int(ln))
    for fn, path, ln in fr[:6]:
        if top and (fn, path, int(ln)) == top:
            break
        if "zz_verif" in path or "/memadp/" in path or "verif_hook" in path:
            harness = True
    if top is None:
        return None
    fn, path, ln = top
    harness = harness or "zz_verif" in path or "/memadp/" in path
    text = src_line(path, ln)
    short = fn.replace("github.com/tinode/chat/server.", "")
    prot = bool(PROTECTED_RE.search(text) or PROTECTED_FN.search(short))
    at = "%s:%d" % (os.path.basename(path), ln)
    return {"a": at, "b": "runtime: " + m.group(1), "fa": short, "fb": "runtime.fatal", "ta": text.strip()[:120], "tb": m.group(1),
            "cls": "harness" if harness else ("protected" if prot else "other"), "n": 1, "fatal": True}


def parse_crash(out):
    """An unrecovered panic / fatal error that killed the test process. -> {what, at, fn, text, harness} or None."""
    m = re.search(r"^(panic|fatal error): (.*)\n(?:.*\n)*?\n?goroutine \d+ \[running[^\]]*\]:\n((?:.+\n)+)", out, re.M)
    if not m:
        return None
    fr = re.findall(r"^(\S+)\(.*\)\n\t(\S+):(\d+)", m.group(3), re.M)
    top = None
    for fn, path, ln in fr:
        if fn.startswith(("runtime.", "sync.", "internal/", "panic", "log.", "testing.")) or "/logs." in fn:
            continue
        top = (fn, path, int(ln))
        break
    if top is None:
        return None
    fn, path, ln = top
    return {"what": (m.group(1) + ": " + m.group(2))[:160], "at": "%s:%d" % (os.path.basename(path), ln),
            "fn": fn.replace("github.com/tinode/chat/server.", ""), "text": src_line(path, ln).strip()[:120],
            "harness": "zz_verif" in path or "/memadp/" in path or "verif_hook" in path,
            "stack": [f[0].replace("github.com/tinode/chat/server.", "") for f in fr[:8]]}


# ---------------------------------------------------------------------------------------------- vectors
def norm_ev(e):
    return {"e": e.get("e", ""), "seq": e.get("seq", 0), "g": e.get("g", 0), "id": e.get("id", "") or "", "kind": e.get("k", "") or "",
            "t": e.get("t", "") or "", "code": e.get("code", 0) or 0, "text": e.get("text", e.get("what", "")) or "", "src": e.get("src", "") or "",
            "ret": False, "ad": "", "hard": bool(e.get("hard", False)), "px": e.get("px", "") or ""}


class RunView:
    """Reshapes one recorder record; answers the descriptive questions used for signatures (never the verdict)."""

    def __init__(self, rec):
        self.rec = rec
        self.run = rec["run"]
        self.hist = {}
        for name, h in rec["hist"].items():
            evs = [norm_ev(e) for e in h["ev"]]
            rets = {e["id"] for e in evs if e["e"] == "ret"}
            evs = [e for e in evs if e["e"] != "ret"]
            for e in evs:
                if e["e"] == "req":
                    e["ret"] = e["id"] in rets
            self.hist[name] = {"user": h["user"], "term": h["term"], "clean": h["clean"], "ev": evs, "wdone": bool(h.get("wdone", False))}
        # round boundaries by global sequence number
        self.gstart = {}
        for name, h in rec["hist"].items():
            for e in h["ev"]:
                if e.get("e") == "mark":
                    r = e["round"]
                    self.gstart[r] = min(self.gstart.get(r, 1 << 60), e["g"])
        self.plans = {sn["round"]: sn.get("plan", {}) for sn in rec["snaps"]}
        # deletions acknowledged: topic -> (g of the 200 reply, kind)
        self.delack = {}
        self.delkind = {}
        self.delreqs = collections.defaultdict(list)   # round -> [(kind, topic/user)]
        for name, h in self.hist.items():
            for e in h["ev"]:
                if e["e"] == "req" and e["kind"] == "deltopic" and OWNER.get(e["t"]) == h["user"] and self.delkind.get(e["t"]) != "soft":
                    self.delkind[e["t"]] = "hard" if e["hard"] else "soft"
        for name, h in self.hist.items():
            evs = h["ev"]
            for i, e in enumerate(evs):
                if e["e"] != "req":
                    continue
                rnd = self.round_of(e["g"])
                if e["kind"] == "deltopic":
                    self.delreqs[rnd].append(("deltopic", e["t"], h["user"]))
                    if OWNER.get(e["t"]) == h["user"] and self.delkind.get(e["t"]) != "soft":
                        self.delkind[e["t"]] = "hard" if e["hard"] else "soft"
                if e["kind"] == "deluser":
                    self.delreqs[rnd].append(("deluser", h["user"], h["user"]))
                if e["kind"] in ("deltopic", "deluser"):
                    ok = [x for x in evs[i + 1:] if x["e"] == "ctrl" and x["id"] == e["id"] and 200 <= x["code"] < 300]
                    if not ok:
                        continue
                    kind = "hard" if e["hard"] else "soft"
                    if e["kind"] == "deltopic" and self.delkind.get(e["t"]) == "soft":
                        kind = "soft"
                    if e["kind"] == "deltopic" and OWNER.get(e["t"]) == h["user"]:
                        ts = [e["t"]]
                    elif e["kind"] == "deluser" and e["hard"]:
                        ts = [t for t, o in OWNER.items() if o == h["user"]]
                    else:
                        ts = []
                    for t in ts:
                        if t not in self.delack or ok[0]["g"] < self.delack[t][0]:
                            self.delack[t] = (ok[0]["g"], kind, name)
        for h in self.hist.values():
            for e in h["ev"]:
                if e["e"] == "req" and e["t"] in self.delack and e["g"] > self.delack[e["t"]][0]:
                    e["ad"] = self.delack[e["t"]][1]

    def fault_fired_in(self, rnd):
        for sn in self.rec["snaps"]:
            if sn["round"] == rnd and sn.get("faultFired"):
                return str(sn.get("plan", {}).get("fault", ""))
        return ""

    def round_of(self, g):
        r = 0
        for k, v in self.gstart.items():
            if v <= g and k > r:
                r = k
        return r

    def racing(self, user, t, g, name=None, seq=None):
        """What else happened to topic t in the round of the request (description only)."""
        rnd = self.round_of(g)
        if name is not None:
            # the session's own {leave unsub} on t was accepted earlier and no later {sub} on t succeeded: Session.subs may still be stale
            evs = self.hist[name]["ev"]
            state = False
            for i, e in enumerate(evs):
                if e["seq"] >= seq:
                    break
                if e["e"] == "req" and e["t"] == t and e["kind"] in ("unsub", "sub"):
                    a = self.answered(evs, i)
                    if a is not None and a["code"] == 200 and a["id"] == e["id"]:
                        state = e["kind"] == "unsub"
                    elif e["kind"] == "unsub" and a is None:
                        state = True
            if state:
                return "after_own_unsub"
        canon = "me:" + user if t == "me" else t
        for k, x, u in self.delreqs.get(rnd, []):
            if k == "deltopic" and x == t:
                return "vs_deltopic"
        for k, x, u in self.delreqs.get(rnd, []):
            if k == "deluser" and (OWNER.get(t) == x or (t.startswith("p") and x[1:] in t[1:]) or canon == "me:" + x):
                return "vs_deluser"
        if canon in self.plans.get(rnd, {}).get("unload", []):
            return "vs_unload"
        if t in self.delack:
            return "after_delete"
        return "vs_none"

    def answered(self, evs, i):
        e = evs[i]
        for x in evs[i + 1:]:
            if x["e"] == "ctrl" and (x["id"] == e["id"] or (e["kind"] in ("leave", "unsub") and x["text"] == "evicted" and x["t"] == e["t"])):
                return x
        return None

    def prev_status(self, name, upto_seq):
        """Status of the session's last subscribe/leave request before upto_seq: the request whose Done the blocked one waits for."""
        h = self.hist[name]
        evs = h["ev"]
        last = None
        for i, e in enumerate(evs):
            if e["e"] == "req" and e["kind"] in ("sub", "leave", "unsub") and e["seq"] < upto_seq and e["ret"]:
                last = i
        if last is None:
            return "none", "vs_none"
        a = self.answered(evs, last)
        rc = self.racing(h["user"], evs[last]["t"], evs[last]["g"])
        if a is None:
            return "unanswered:" + evs[last]["kind"], rc
        if a["id"] != evs[last]["id"]:
            return "evicted_only:" + evs[last]["kind"], rc      # the eviction notice says nothing about the request's own fate
        return "answered:%s:%d" % (evs[last]["kind"], a["code"]), rc

    def blocked_sig(self, name, prev, rc):
        site = self.parked_site(name)
        if "purgeChannels" in site:
            return {"prev": "n/a", "input_class": "purge_vs_writer", "site": site}
        return {"prev": prev, "input_class": rc, "site": site}

    def parked_site(self, name):
        for hc in self.rec["hung"]:
            if hc.get("sess") == name:
                for p in self.rec["parked"]:
                    if p["id"] == hc.get("goid"):
                        return short_site(p["via"])
        return "unknown"

    def stuck(self, name):
        h = self.hist[name]
        return any(e["e"] == "req" and not e["ret"] for e in h["ev"]) or h["clean"] == 1

    def wedged(self, name):
        """stuck, or a subscribe/leave of this session was accepted and never answered (its wait-group slot is taken for good)."""
        if self.stuck(name):
            return True
        h = self.hist[name]
        return any(e["e"] == "req" and e["kind"] in ("sub", "leave", "unsub") and e["ret"] and self.answered(h["ev"], i) is None
                   for i, e in enumerate(h["ev"]))

    def vectors(self):
        out = []
        snaps = self.rec["snaps"]
        # expected "gone" notices
        gone = collections.defaultdict(list)
        regular = [sn for sn in snaps if not sn.get("probe") and not sn.get("final")]
        for prev, cur in zip(regular, regular[1:]):
            if not (prev["quiesced"] and cur["quiesced"]):
                continue
            rnd = cur["round"]
            g0 = self.gstart.get(rnd, 1 << 60)
            g1 = self.gstart.get(rnd + 1, 1 << 60)
            for t, (g, kind, deleter) in self.delack.items():
                if not (g0 <= g < g1):
                    continue
                for name, s in prev["st"]["sess"].items():
                    c = cur["st"]["sess"].get(name)
                    me = "me:" + s["user"]
                    if not c or not s["live"] or not c["live"] or name == deleter or self.wedged(name):
                        continue
                    if t not in s["subs"] or me not in s["subs"] or me not in c["subs"]:
                        continue
                    h = self.hist[name]
                    if any(e["e"] == "req" and g0 <= e["g"] < g1 and ((e["t"] == t and e["kind"] in ("leave", "unsub", "deltopic")) or
                                                                      (e["t"] == "me" and e["kind"] == "leave") or e["kind"] == "deluser") for e in h["ev"]):
                        continue
                    if any(e["e"] == "stall" and g0 <= e["g"] < g1 for e in h["ev"]):
                        continue
                    marks = [e["seq"] for e in h["ev"] if e["e"] == "mark" and e["g"] >= g0 and e["g"] < g1]
                    gone[name].append({"t": t, "after": marks[0] if marks else 0, "kind": kind})
        for name, h in sorted(self.hist.items()):
            # live = still connected at the end: cleanUp not started and the write loop has not closed the socket
            out.append({"k": "sess", "run": self.run, "name": name, "live": h["term"] == "" and not h["wdone"], "term": h["term"], "clean": h["clean"],
                        "ev": [e for e in h["ev"] if e["e"] in ("req", "ctrl", "pres", "term", "mark")], "gone": gone.get(name, [])})
        for sn in snaps:
            st = sn["st"]
            sess = [{"name": n, "live": s["live"], "clean": s["clean"], "subs": [x if not x.startswith("me:") else x for x in s["subs"]],
                     "user": s["user"], "term": s["term"]} for n, s in sorted(st["sess"].items())]
            topics = [{"t": t, "active": tp["active"], "att": tp["att"],
                       "online": [{"u": u, "o": o, "a": tp["attu"].get(u, 0)} for u, o in sorted(tp["online"].items())]}
                      for t, tp in sorted(st["topics"].items())]
            deleted = [{"t": t, "kind": self.delack.get(t, (0, self.delkind.get(t, "unknown")))[1]} for t, ex in sorted(st["rows"].items()) if not ex]
            out.append({"k": "snap", "run": self.run, "round": sn["round"], "quiesced": bool(sn["quiesced"]), "sess": sess, "topics": topics,
                        "deleted": deleted, "registry": st["registry"], "qerr": sn.get("qerr", ""), "why": sn.get("why", ""),
                        "probe": bool(sn.get("probe")), "mustUnload": sn.get("mustUnload", []) or [],
                        "fault": sn.get("plan", {}).get("fault", "") if (sn.get("probe") or sn.get("faultFired")) else ""})
        hung = []
        for hc in self.rec["hung"]:
            hung.append({"sess": hc.get("sess", ""), "req": hc.get("req", "") or "", "clean": hc.get("clean", 0), "op": hc.get("op", ""), "goid": hc.get("goid", 0)})
        out.append({"k": "run", "run": self.run, "parked": [{"in": p["in"], "via": p["via"], "state": p["state"], "id": p["id"]} for p in self.rec["parked"]], "hung": hung})
        return out


def short_site(via):
    fs = [re.sub(r"\(\*Session\)\.dispatch\..*", "(*Session).dispatch", f) for f in via.split("<")[:3]]
    return "<".join(fs[:2])


def describe(view, v, mon):
    """Details + signature fields for a monitor TLC found false on vector v (one entry per distinct cause)."""
    out = []
    if v["k"] == "sess":
        name, evs, h = v["name"], view.hist[v["name"]]["ev"], view.hist[v["name"]]
        if mon == "RequestAnswered":
            for i, e in enumerate(evs):
                if e["e"] == "req" and e["kind"] in TRACKED and e["ret"] and view.answered(evs, i) is None:
                    out.append(({"run": view.run, "sess": name, "request": {k: e[k] for k in ("kind", "t", "id", "seq")}},
                                {"kind": e["kind"], "input_class": view.racing(h["user"], e["t"], e["g"], name, e["seq"]), "site": "reply_lost"}))
        elif mon == "DispatchReturns":
            for e in evs:
                if e["e"] == "req" and not e["ret"]:
                    prev, rc = view.prev_status(name, e["seq"])
                    out.append(({"run": view.run, "sess": name, "blocked_request": {k: e[k] for k in ("kind", "t", "id", "seq")}, "previous": prev},
                                dict(view.blocked_sig(name, prev, rc), kind=e["kind"])))
        elif mon == "CleanupReturns":
            term = [e["seq"] for e in evs if e["e"] == "term"]
            prev, rc = view.prev_status(name, term[0] if term else 1 << 60)
            out.append(({"run": view.run, "sess": name, "term": h["term"], "previous": prev}, view.blocked_sig(name, prev, rc)))
        elif mon == "DeletedTopicRefuses":
            for i, e in enumerate(evs):
                if e["e"] == "req" and e["ad"]:
                    for x in evs[i + 1:]:
                        if x["e"] == "ctrl" and x["id"] == e["id"] and 200 <= x["code"] < 300:
                            out.append(({"run": view.run, "sess": name, "request": {k: e[k] for k in ("kind", "t", "id")}, "code": x["code"]},
                                        {"kind": e["kind"], "input_class": e["ad"] + "_delete", "site": "request_after_delete_succeeds"}))
        elif mon == "ProbeAfterFault":
            for i, e in enumerate(evs):
                if e["e"] == "req" and e["px"]:
                    a = [x for x in evs[i + 1:] if x["e"] == "ctrl" and x["id"] == e["id"]]
                    code = a[0]["code"] if a else 0
                    if not a or (e["px"] == "ok" and code not in (200, 304)) or (e["px"] == "norm" and (code == 503 or code >= 500)):
                        plan = view.plans.get(view.round_of(e["g"]), {})
                        out.append(({"run": view.run, "sess": name, "request": {k: e[k] for k in ("kind", "t", "id")}, "code": code, "plan": plan},
                                    {"kind": e["kind"], "input_class": "after_fault:" + str(plan.get("fault", "")), "site": "reply_%s" % (code or "none"),
                                     "topic": "p2p" if e["t"].startswith("p") else ("grp" if e["t"].startswith("g") else e["t"])}))
        elif mon == "DeletedTopicNotified":
            for x in v["gone"]:
                out.append(({"run": view.run, "sess": name, "topic": x["t"]}, {"input_class": x["kind"] + "_delete", "site": "no_gone_notice"}))
    elif v["k"] == "snap":
        sess = {s["name"]: s for s in v["sess"]}
        if mon == "Quiesces":
            out.append(({"run": view.run, "round": v["round"], "qerr": v["qerr"]}, {"site": "world_not_quiescent", "input_class": "hang" if view.rec["hung"] else ("after_fault:" + v["fault"] if v.get("fault") else "none"), "why": v.get("why", "")}))
        elif mon == "AttachSymmetry":
            for s in v["sess"]:
                if not s["live"]:
                    continue
                for tp in v["topics"]:
                    a, b = tp["active"] and s["name"] in tp["att"], tp["t"] in s["subs"]
                    if tp["active"] and a != b:
                        out.append(({"run": view.run, "round": v["round"], "sess": s["name"], "topic": tp["t"], "topic_lists_session": a, "session_lists_topic": b},
                                    {"side": "topic_only" if a else "session_only", "input_class": "wedged_session" if view.wedged(s["name"]) else "healthy_session", "site": tp["t"][:1]}))
                for t in s["subs"]:
                    if t not in [tp["t"] for tp in v["topics"] if tp["active"]]:
                        out.append(({"run": view.run, "round": v["round"], "sess": s["name"], "topic": t, "topic_loaded": False},
                                    {"side": "session_only", "input_class": "wedged_session" if view.wedged(s["name"]) else "healthy_session", "site": t[:1]}))
        elif mon == "TerminatedDetached":
            for s in v["sess"]:
                if s["live"]:
                    continue
                cl = {0: "none", 1: "hung", 2: "returned"}[s["clean"]]
                tg = [e["g"] for e in view.hist[s["name"]]["ev"] if e["e"] == "term"]
                fr = view.fault_fired_in(view.round_of(tg[0])) if tg else ""
                for tp in v["topics"]:
                    if s["name"] in tp["att"]:
                        out.append(({"run": view.run, "round": v["round"], "sess": s["name"], "topic": tp["t"], "term": s["term"], "cleanUp": cl,
                                     "ended_in_round": view.round_of(tg[0]) if tg else -1},
                                    {"cleanup": cl, "term": s["term"], "site": "dead_session_attached", "input_class": "fault_round:" + fr if fr else "no_fault"}))
                if s["clean"] == 2 and s["name"] in v["registry"]:
                    out.append(({"run": view.run, "round": v["round"], "sess": s["name"]}, {"cleanup": cl, "term": s["term"], "site": "dead_session_registered"}))
        elif mon == "OnlineRestored":
            for tp in v["topics"]:
                for o in tp["online"]:
                    if o["o"] != o["a"]:
                        ghosts = [n for n in tp["att"] if n in sess and (not sess[n]["live"] or view.wedged(n)) and sess[n]["user"] == o["u"]]
                        out.append(({"run": view.run, "round": v["round"], "topic": tp["t"], "user": o["u"], "online": o["o"], "attached": o["a"]},
                                    {"site": tp["t"][:1], "delta": "high" if o["o"] > o["a"] else "low", "input_class": "ghost_attached" if ghosts else "no_ghost"}))
                        # (online is compared with the attached foreground sessions, dead ones included: a ghost shows up under TerminatedDetached)
        elif mon == "DeletedGone":
            for d in v["deleted"]:
                if d["t"] in [tp["t"] for tp in v["topics"]]:
                    out.append(({"run": view.run, "round": v["round"], "topic": d["t"]}, {"input_class": d["kind"] + "_delete", "site": "deleted_topic_loaded"}))
                for s in v["sess"]:
                    if s["live"] and d["t"] in s["subs"]:
                        ic = "wedged_session" if view.wedged(s["name"]) else d["kind"] + "_delete"
                        out.append(({"run": view.run, "round": v["round"], "topic": d["t"], "sess": s["name"]}, {"input_class": ic, "site": "deleted_topic_listed"}))
        elif mon == "FaultedTopicUnloads":
            for t in v["mustUnload"]:
                tp = [x for x in v["topics"] if x["t"] == t]
                if tp:
                    out.append(({"run": view.run, "round": v["round"], "topic": t, "active": tp[0]["active"], "attached": tp[0]["att"]},
                                {"input_class": "after_fault:" + v.get("fault", ""), "site": "topic_not_unloaded"}))
        elif mon == "NoGhostSession":
            out.append(({"run": view.run, "round": v["round"]}, {"site": "unknown_session_attached"}))
    elif v["k"] == "run":
        if mon == "NoParkedGoroutine":
            for p in v["parked"]:
                owner = [hc["sess"] for hc in v["hung"] if hc.get("goid") == p["id"] and hc["sess"] in view.hist]
                if not owner and "cleanUp" in p["via"]:
                    # a cleanUp started by the harness on behalf of a reader (sweep / shutdown): the session whose cleanUp never returned
                    taken = {hc["sess"] for hc in v["hung"]}
                    cand = [n for n, h in sorted(view.hist.items()) if h["clean"] == 1 and n not in taken]
                    owner = cand[:1]
                prev = view.prev_status(owner[0], 1 << 60)[0] if owner else "not_a_reader"
                if "purgeChannels" in p["via"]:
                    prev = "n/a"
                out.append(({"run": view.run, "goroutine": p, "session": owner[0] if owner else ""}, {"site": short_site(p["via"]), "prev": prev}))
        elif mon == "NoHungClient":
            for hc in v["hung"]:
                prev, rc = view.prev_status(hc["sess"], 1 << 60) if hc["sess"] in view.hist else ("none", "vs_none")
                out.append(({"run": view.run, "client": hc},
                            dict(view.blocked_sig(hc["sess"], prev, rc), kind=hc["req"].split(":")[0])))
    return out


# ---------------------------------------------------------------------------------------------- the check
def run(ctx):
    thorough = ctx.tier == "thorough"
    # ---- U1: design check of the as-intended model
    base = "Attach_U1.cfg" if thorough else "Attach_U1q.cfg"
    r1 = ctx.tlc_must_pass("Attach", base, timeout=1500, env=JAVA)
    vlib.log("U1 Attach/%s (as intended): %d states generated, %d distinct, %.1fs - deadlock-free, 9 invariants hold" % (base, r1.generated, r1.distinct, r1.wall))
    demos = {}
    for name, sw, ov, expect in (DEMOS if thorough else DEMOS[:2] + DEMOS[5:]):
        cfg = derive_cfg(ctx, "Attach_U1q.cfg", "Attach_dev_%s.cfg" % name, sw, ov)
        r = ctx.tlc("Attach", cfg, timeout=900, env=JAVA)
        got = "Deadlock" if r.deadlock else (r.violated_invariants[0] if r.violated_invariants else ("none" if r.ok else "error:%s" % r.error))
        demos[name] = {"switches": sw, "counterexample": got, "states": r.distinct, "wall_s": round(r.wall, 1)}
        if not re.fullmatch(expect, got):
            raise vlib.Infra("Attach.tla: deviation %s no longer yields its counterexample (got %s) - the model or its switch is dead" % (name, got))
    vlib.log("U1 as-built switches: " + ", ".join("%s->%s" % (k, v["counterexample"]) for k, v in demos.items()))

    # ---- E2: concurrent recording under -race
    rec_path = os.path.join(ctx.scratch, "c14_e2.ndjson")
    env = {"VERIF_OUT": rec_path, "VERIF_C14_RUNS": 2500 if thorough else 90, "VERIF_C14_ROUNDS": 4, "VERIF_C14_OPS": 8,
           "VERIF_C14_BUDGET_MS": 330000 if thorough else 28000, "GORACE": "halt_on_error=0 history_size=2"}
    if os.environ.get("VERIF_C14_SELFTEST"):
        env["VERIF_C14_SELFTEST"] = os.environ["VERIF_C14_SELFTEST"]
    rc, out, wall = ctx.go_test("./", "TestVerifC14E2$", env=env, race=True, timeout=900)
    m = re.search(r"VERIF_C14_DONE runs=(\d+) hangs=(\d+) elapsed_ms=(\d+)", out)
    fatal = parse_fatal(out)
    if fatal and fatal["cls"] != "harness" and not m:
        # the server process died of an unsynchronised map access in server code: judge what was observed (the race reports
        # and the fatal access), there are no complete run records
        races = [r for r in parse_races(out) if r["cls"] != "harness"] + [fatal]
        vectors = [{"k": "race", "protected": r["cls"] == "protected", "a": r["a"], "b": r["b"]} for r in races]
        vlib.write_ndjson(os.path.join(ctx.specdir, "c14_vectors.ndjson"), vectors)
        r2, fails, divs = vlib.run_vector_monitor(ctx, "Monitor_C14", "c14_vectors.ndjson", timeout=600)
        vlib.log("E2: the server process died: fatal error: %s at %s (%s); %d race reports; monitors: %d vectors, %d failing" % (
            fatal["tb"], fatal["a"], fatal["fa"], len(races) - 1, len(vectors), len(fails)))
        for k, mons in fails:
            own = races[k - 1]
            for mon in mons:
                ctx.fail(mon, {"race": own}, site="%s|%s" % (own["a"], own["b"]), input_class="protected_data")
        if not fails:
            sys.stdout.write(out[-4000:])
            raise vlib.Infra("the E2 process died of '%s' at %s, outside the protected structures and outside the monitors" % (fatal["tb"], fatal["a"]))
        ctx.cov.update({"states": r1.distinct, "transitions": r1.generated, "evaluations": len(vectors), "exhaustive": False,
                        "rule": "U1 Attach.tla as intended; E2 process died of a runtime-detected unsynchronised map access: only the race reports were judged",
                        "race_reports": {"protected": [r for r in races if r["cls"] == "protected"]}})
        return ctx.finish(level="model_checking", samples=vectors[:2])
    # an unrecovered panic in SERVER code while the histories run (e.g. boundedWaitGroup.Done before Add) is an observation too:
    # the completed runs are judged as usual (the recorder flushes after every run) and the crash is one more vector
    crash = parse_crash(out) if not m else None
    if crash and crash["harness"]:
        crash = None
    # the race detector makes `go test` fail when it reported something: that is an observation, not an infrastructure failure
    if (not m and not crash) or (m and rc != 0 and "WARNING: DATA RACE" not in out) or "[build failed]" in out or (m and "panic:" in out):
        i = max(out.find("panic:"), out.find("fatal error:"))
        if i >= 0:
            sys.stdout.write(out[max(0, i - 200):i + 4000] + "\n...\n")
        sys.stdout.write(out[-6000:])
        raise vlib.Infra("harness go test failed (rc=%d) - build error or harness problem, not a verdict" % rc)
    records = []
    if os.path.exists(rec_path):
        with open(rec_path) as fh:
            for line in fh:
                try:
                    records.append(json.loads(line))
                except ValueError:
                    pass      # the line that was being written when the process died
    if crash:
        vlib.log("E2: the server process died after %d recorded runs: %s at %s (%s)" % (len(records), crash["what"], crash["at"], crash["fn"]))
        m = re.match(r"(\d+) (\d+) (\d+)", "%d %d 0" % (len(records), sum(1 for r in records if r.get("hung"))))
    nruns = int(m.group(1))
    too_few = nruns < (20 if not thorough else 200) and not crash
    if nruns == 0:
        raise vlib.Infra("E2 recorded no run")
    races = parse_races(out)
    vlib.log("E2: %d runs (%d with a hang) in %.1fs; race reports: %d distinct (%s)" % (
        nruns, int(m.group(2)), wall, len(races), dict(collections.Counter(r["cls"] for r in races))))

    # ---- vectors
    views, vectors, owner_of = [], [], []
    for rec in records:
        view = RunView(rec)
        views.append(view)
        for v in view.vectors():
            vectors.append(v)
            owner_of.append(view)
    for r in races:
        if r["cls"] == "harness":
            continue
        vectors.append({"k": "race", "protected": r["cls"] == "protected", "a": r["a"], "b": r["b"]})
        owner_of.append(r)
    if crash:
        vectors.append({"k": "crash", "what": crash["what"], "at": crash["at"], "fn": crash["fn"]})
        owner_of.append(crash)
    vlib.write_ndjson(os.path.join(ctx.specdir, "c14_vectors.ndjson"), vectors)
    r2, fails, divs = vlib.run_vector_monitor(ctx, "Monitor_C14", "c14_vectors.ndjson", timeout=1500)
    vlib.log("monitors: %d vectors, %d with monitor failures, %d divergences, %.1fs" % (len(vectors), len(fails), len(divs), r2.wall))

    nfail = collections.Counter()
    for k, mons in fails:
        v, own = vectors[k - 1], owner_of[k - 1]
        for mon in mons:
            if v["k"] == "race":
                ctx.fail(mon, {"race": own}, site="%s|%s" % (own["a"], own["b"]), input_class="protected_data")
                nfail[mon] += 1
                continue
            if v["k"] == "crash":
                ctx.fail(mon, {"crash": own, "runs_completed_before": len(records)}, site="%s %s" % (own["at"], own["fn"]),
                         input_class=re.sub(r"0x[0-9a-f]+|\d+", "N", own["what"])[:80])
                nfail[mon] += 1
                continue
            ds = describe(own, v, mon)
            if not ds:
                ds = [({"run": own.run, "vector": v["k"], "note": "TLC found the monitor false; no description available"}, {"site": "undescribed"})]
            seen = set()
            for detail, sig in ds:
                key = json.dumps(sig, sort_keys=True)
                if key in seen:
                    continue
                seen.add(key)
                detail["seed"] = own.rec["seed"]
                ctx.fail(mon, detail, **sig)
                nfail[mon] += 1
    if os.environ.get("VERIF_C14_DUMP"):
        with open(os.environ["VERIF_C14_DUMP"], "w") as fh:
            json.dump({"failures": ctx.failures}, fh, default=str)
        import shutil
        shutil.copy(rec_path, os.environ["VERIF_C14_DUMP"] + ".rec.ndjson")
        shutil.copy(os.path.join(ctx.specdir, "c14_vectors.ndjson"), os.environ["VERIF_C14_DUMP"] + ".vec.ndjson")
        with open(os.environ["VERIF_C14_DUMP"] + ".gotest.log", "w") as fh:
            fh.write(out)
    for k, what in divs:
        v = vectors[k - 1]
        ctx.divergences.append({"run": v.get("run"), "sess": v.get("name"), "what": what,
                                "codes": sorted({(e["kind"], x["code"]) for e in v.get("ev", []) if e["e"] == "req"
                                                 for x in v.get("ev", []) if x["e"] == "ctrl" and x["id"] == e["id"]})[:30]})

    # ---- coverage
    reqs = collections.Counter()
    replies = collections.Counter()
    terms = collections.Counter()
    stages = collections.Counter()
    nsess = nsnap = 0
    for view in views:
        for name, h in view.hist.items():
            nsess += 1
            terms[h["term"] or "alive"] += 1
            for i, e in enumerate(h["ev"]):
                if e["e"] == "req":
                    reqs[e["kind"]] += 1
                    a = view.answered(h["ev"], i)
                    replies["%s:%s" % (e["kind"], a["code"] if a else "none")] += 1
        for sn in view.rec["snaps"]:
            nsnap += 1
            if not sn.get("probe"):
                stages[str(sn.get("plan", {}).get("stage", "setup")).split(":")[0]] += 1
            if sn.get("probe"):
                stages["probe_snapshots"] += 1
                continue
            if sn.get("faultFired"):
                stages["store_fault_fired:" + str(sn.get("plan", {}).get("fault"))] += 1
            if sn.get("plan", {}).get("slow"):
                stages["slow_consumer"] += 1
            if sn.get("plan", {}).get("unload"):
                stages["idle_unload_armed"] += 1
    info_races = [{"a": r["a"], "b": r["b"], "fa": r["fa"], "fb": r["fb"], "n": r["n"]} for r in races if r["cls"] == "other"]
    ctx.cov.update({
        "states": r1.distinct + r2.distinct, "transitions": r1.generated + r2.generated,
        "traces_validated_against_impl": nruns, "evaluations": len(vectors), "distinct_nontrivial": sum(reqs.values()),
        "rule": "U1: Attach.tla 2 sessions x 2 topics, %s; E2: %d worlds x 4 concurrent rounds x 5 client goroutines (3 users, 2 group + 2 p2p topics + me), "
                "seeded programs of sub/leave/unsub/pub/disconnect+reconnect/del topic/del user with staged rendezvous (sub|leave vs del topic, sub vs idle unload, "
                "del user vs sub, unsub vs sibling session), slow-consumer stalls, idle timers re-armed at quiescent points; under -race" % (
                    "requests <= 3 in total, <= 2 per session" if thorough else "1 request per session", nruns),
        "exhaustive": False,
        "model": {"module": "Attach", "cfg": base, "generated": r1.generated, "distinct": r1.distinct, "wall_s": round(r1.wall, 1), "dev_counterexamples": demos},
        "e2": {"runs": nruns, "hangs": int(m.group(2)), "sessions": nsess, "snapshots": nsnap, "requests": dict(reqs), "reply_classes": dict(replies),
               "session_ends": dict(terms), "round_plans": dict(stages), "wall_s": round(wall, 1)},
        "monitor_failures": dict(nfail),
        "race_reports": {"protected": [r for r in races if r["cls"] == "protected"], "information_only": info_races[:40],
                         "harness_side_ignored": sum(1 for r in races if r["cls"] == "harness")},
        "monitor_run": {"module": "Monitor_C14", "vectors": len(vectors)},
    })
    ctx.assumptions += [
        "sessions are websocket-flavoured without a socket: the client goroutine plays readLoop (dispatchRaw, then cleanUp), the harness writer plays writeLoop "
        "(send/detach/stop, outbound queue limit); cluster, gRPC and long-poll session paths are not exercised",
        "a slow consumer is a blocked socket write plus a backlog injected with Session.queueOutBytes up to the queue's capacity",
        "idle unload = the topic's real kill timer re-armed with 0-250us at a quiescent point (zero attached sessions), it fires during the next concurrent round",
        "schedules are what the Go runtime produces under -race for the seeded programs: coverage of interleavings is statistical, not exhaustive; "
        "the exhaustive part is the Attach.tla design check",
        "race reports touching Hub.numTopics, Topic.perUser/owner read by the hub, Session.uid/background are recorded as information only (not in the property's list)",
    ]
    if too_few and not [f for f in ctx.failures if vlib.match_known(ctx.known, f) is None]:
        # a short run that shows nothing is no evidence; a short run whose monitors fail on the real observations is a verdict
        # (a defect that makes requests hang eats the time budget)
        raise vlib.Infra("E2 recorded only %d runs" % nruns)
    samples = []
    if vectors:
        sv = [v for v in vectors if v["k"] == "sess" and len(v["ev"]) > 6][:1] + [v for v in vectors if v["k"] == "snap" and v["round"] > 0][:1]
        for v in sv:
            v = dict(v)
            if "ev" in v:
                v["ev"] = v["ev"][:14]
            samples.append(v)
    return ctx.finish(level="model_checking", samples=samples)
