"""C17 — cluster nodes agree on topic placement and on at most one leader per term.

Ring half:     spec/RingRef.tla (reference ring for an arbitrary hash function), U1 = spec/RingCheck.tla,
               recorders TestVerifC17Ring (server/ringhash) and TestVerifC17Place (server),
               verdict + binding = spec/Monitor_C17.tla.
Election half: spec/Election.tla, U1 = exhaustive 3 nodes + simulation 4-5 nodes (as intended, DEV_* = FALSE),
               schedules = spec/ElectionGen.tla (-simulate, as built), recorder TestVerifC17Elect (server),
               verdict = Monitor_C17!CheckElect on the real observations, binding = spec/Monitor_C17E.tla.
"""
import os, json, glob, shutil, subprocess, threading, time, collections
import vlib

SITES = {
    "debounced_mismatching_health_check": "server/cluster_leader.go:313-326",
    "health_nodes_exclude_receiver": "server/cluster.go:1149-1166 (gcProxySessionsForNode(self) via cluster_leader.go:319)",
    "leader_signature_not_of_its_node_list": "server/cluster_leader.go:157-162",
}


class Bg(threading.Thread):
    """Runs fn in a thread, keeps the result or the exception."""
    def __init__(self, fn, *a, **kw):
        super().__init__(daemon=True)
        self.fn, self.a, self.kw, self.res, self.exc = fn, a, kw, None, None
        self.start()

    def run(self):
        try:
            self.res = self.fn(*self.a, **self.kw)
        except BaseException as e:      # re-raised by get()
            self.exc = e

    def get(self):
        self.join()
        if self.exc:
            raise self.exc
        return self.res


def write_cfg(ctx, name, lines):
    with open(os.path.join(ctx.specdir, name), "w") as fh:
        fh.write("\n".join(lines) + "\n")


def ring_cfg(ctx, name, nodes, hmax):
    write_cfg(ctx, name, ["CONSTANTS", "  NodeSeq <- %s" % nodes, "  R = 2", "  HMax = %d" % hmax, "  KeyNames <- KeyNames6",
                          "SPECIFICATION Spec",
                          "INVARIANTS OrderIndependent Total MinimalMovementOnRemove MinimalMovementOnAdd SignatureEqualIffSameRing WellFormed",
                          "CHECK_DEADLOCK FALSE"])


ELECT_INV = ["INVARIANTS TypeOK OneLeaderPerTerm OneVotePerTerm LeaderHasMajorityOfConfigured MinorityLeaderStopsServing HealthConsistent ActiveMatchesFails",
             "PROPERTIES TermMonotone HealthAdopts StaleIgnored", "CHECK_DEADLOCK FALSE"]


def elect_cfg(ctx, name, configs, maxterm, maxcalls, maxfails, maxdup, maxcuts, constraint=True):
    write_cfg(ctx, name, ["CONSTANTS", "  Configs <- %s" % configs, "  MaxTerm = %d" % maxterm, "  MaxCalls = %d" % maxcalls,
                          "  MaxFails = %d" % maxfails, "  MaxDup = %d" % maxdup, "  MaxCuts = %d" % maxcuts,
                          "  DEV_RehashDebounce = FALSE", "  DEV_LeaderKeepsAdoptedRing = FALSE", "  DEV_SelfExcludedCrash = FALSE",
                          "SPECIFICATION Spec"] + (["CONSTRAINT Bounded"] if constraint else []) + ELECT_INV)


def gen_schedules(ctx, k, seed, num, depth):
    """One TLC -simulate process writing sched_<i>.ndjson files into its own directory; returns the lines."""
    d = os.path.join(ctx.scratch, "gen%d" % k)
    os.makedirs(d)
    for f in ("Election.tla", "ElectionGen.tla", "ElectionGen.cfg"):
        shutil.copy(os.path.join(ctx.specdir, f), d)
    r = ctx.tlc("ElectionGen", "ElectionGen.cfg", workers=1, simulate="num=%d" % num, depth=depth + 2, seed=seed, cwd=d, timeout=600,
                env={"JAVA_TOOL_OPTIONS": "-Xss512m -Xmx1200m"})
    lines = []
    for f in sorted(glob.glob(os.path.join(d, "sched_*.ndjson"))):
        with open(f) as fh:
            lines += [l for l in fh if l.strip()]
    if not lines:
        import sys
        sys.stdout.write(r.out[-3000:])
        raise vlib.Infra("schedule generation produced nothing")
    return lines


def run_bin(ctx, binary, test, env):
    """Runs one recorder test of the already built test binary of package main (server)."""
    e = dict(os.environ)
    e.update(vlib.GOENV)
    e.update({"VERIF_SEED": str(ctx.seed), "VERIF_TIER": ctx.tier})
    e.update({k: str(v) for k, v in env.items()})
    p = subprocess.run([binary, "-test.run", test, "-test.timeout", "900s"], cwd=os.path.join(vlib.REPO, "server"),
                       env=e, stdout=subprocess.PIPE, stderr=subprocess.STDOUT, text=True)
    if p.returncode != 0:
        import sys
        sys.stdout.write(p.stdout[-6000:])
        raise vlib.Infra("harness %s failed (rc=%d) - harness assertion or crash, not a verdict" % (test, p.returncode))
    with open(env["VERIF_OUT"]) as fh:
        return [l for l in fh if l.strip()]


def run_shard(ctx, binary, k, sched_lines, maxdup, selftest):
    inp = os.path.join(ctx.scratch, "sched_%d.ndjson" % k)
    out = os.path.join(ctx.scratch, "elect_%d.ndjson" % k)
    with open(inp, "w") as fh:
        fh.writelines(sched_lines)
    env = {"VERIF_IN": inp, "VERIF_OUT": out, "VERIF_C17_MAXDUP": maxdup}
    if selftest:
        env["VERIF_C17_SELFTEST"] = selftest
    return run_bin(ctx, binary, "TestVerifC17Elect$", env)


def elect_class(tr, mon, k):
    """Signature fields of a failed election monitor, from the recorded step it failed on."""
    if k < 1 or k > len(tr["steps"]):
        return "trace", "-"
    ev = tr["steps"][k - 1]["ev"]
    if mon == "HealthAdoptsNoCrash":
        ic = "health_nodes_exclude_receiver" if ev["m"] not in ev["hnodes"] else "crash_in_health_check"
    elif mon in ("HealthAdoptsRingAtOnce", "HealthAdoptsRingBySecondCheck"):
        if sorted(ev["hsig"]) != sorted(ev["hnodes"]):
            ic = "leader_signature_not_of_its_node_list"
        elif mon == "HealthAdoptsRingAtOnce":
            ic = "debounced_mismatching_health_check"
        else:
            ic = "second_mismatching_health_check"
    else:
        ic = ev["op"] + (":" + ev["kind"] if ev["kind"] else "")
    return ic, SITES.get(ic, "server/cluster_leader.go")


def brief_step(tr, k):
    def obs(o):
        return {x: o[x] for x in ("term", "leader", "ring", "active", "busy", "crashed", "part", "code")}
    if k < 1 or k > len(tr["steps"]):
        return {"cfg": {x: tr[x] for x in ("n", "va", "fl")}}
    s = tr["steps"][k - 1]
    pre = tr["init"] if k == 1 else tr["steps"][k - 2]["obs"]
    return {"cfg": {x: tr[x] for x in ("n", "va", "fl")}, "step": k, "ev": s["ev"], "pre": obs(pre), "post": obs(s["obs"])}


def directed_schedules():
    """Two hand-written behaviours of the spec (replayed and followed by TLC like the generated ones), so that
    every run exercises the two as-built deviations that need a longer set-up than random schedules often reach.
    Ping outcomes are listed twice because the real code visits its peers in map order."""
    def ev(op, n=0, m=0, kind="", t=0, b=None):
        return {"op": op, "n": n, "m": m, "kind": kind, "t": t, "o": False, "nx": 0, "b": b or ["idle"] * 3}

    def ping(L, t, outcomes):
        evs = [ev("tick", L)]
        for _ in range(2):
            for m, how in outcomes.items():
                evs += [ev("deliver", L, m, "health", t), ev("reply", L, m, "health", t)] if how == "ok" else [ev("fail", L, m)]
        return evs

    elect1 = [ev("tick", 1, b=["elect", "idle", "idle"]), ev("deliver", 1, 2, "vote", 1, b=["elect", "idle", "idle"]), ev("reply", 1, 2, "vote", 1)]
    # (a) the connection leader -> follower 3 flaps twice: the second list without 3 reaches 3 when its debounce flag is set
    a = elect1 + ping(1, 1, {2: "ok", 3: "fail"}) + [ev("reconnect", 1, 3)] + ping(1, 1, {2: "ok", 3: "ok"}) + ping(1, 1, {2: "ok", 3: "ok"}) \
        + ping(1, 1, {2: "ok", 3: "fail"}) + [ev("reconnect", 1, 3)] + ping(1, 1, {2: "ok", 3: "ok"}) + ping(1, 1, {2: "ok"})
    # (b) follower 2 adopts the ring {1,2} from leader 1, is then elected itself and advertises that ring's signature
    #     together with its own, never updated, list {1,2,3}
    b = elect1 + ping(1, 1, {2: "ok", 3: "fail"}) + ping(1, 1, {2: "ok"}) + ping(1, 1, {2: "ok"}) \
        + [ev("tick", 2, b=["idle", "elect", "idle"]), ev("deliver", 2, 3, "vote", 2, b=["idle", "elect", "idle"]), ev("reply", 2, 3, "vote", 2)] \
        + ping(2, 2, {1: "ok", 3: "ok"}) + ping(2, 2, {1: "ok", 3: "ok"}) + ping(2, 2, {1: "ok", 3: "ok"})
    return [json.dumps({"cfg": {"n": 3, "va": 1, "fl": 1}, "hist": h}) + "\n" for h in (a, b)]


def sim_counts(r):
    """TLC -simulate prints its totals differently from the model checker."""
    import re
    m = re.search(r"The number of states generated: (\d+)", r.out)
    if m:
        r.generated = r.distinct = int(m.group(1))
    m = re.search(r"(\d+) traces generated", r.out)
    r.traces = int(m.group(1)) if m else 0
    return r


def run(ctx):
    thorough = ctx.tier == "thorough"
    selftest = os.environ.get("VERIF_C17_SELFTEST", "")   # self-test of the binding only; never set in normal runs
    t0 = time.time()
    ctx.overlay()                                          # (written once, before any thread uses it)
    # Up to ~20 TLC processes run side by side: cap their heaps (the JVM default is a quarter of the RAM each)
    os.environ["JAVA_TOOL_OPTIONS"] = "-Xmx10g"            # the two monitor runs (they load all recorded vectors)
    small = {"JAVA_TOOL_OPTIONS": "-Xss512m -Xmx2500m"}
    mid = {"JAVA_TOOL_OPTIONS": "-Xss512m -Xmx4g"}

    # ------------------------------------------------------------------ U1 (design checks), in the background
    ring_cfgs = [("RingCheck_n1.cfg", "Nodes1", 7), ("RingCheck_n2.cfg", "Nodes2", 7)]
    ring_cfgs += [("RingCheck_n3.cfg", "Nodes3", 5), ("RingCheck_n4.cfg", "Nodes4", 2)] if thorough else \
                 [("RingCheck_n3.cfg", "Nodes3", 3), ("RingCheck_n4.cfg", "Nodes4", 1)]
    for name, nodes, hmax in ring_cfgs:
        ring_cfg(ctx, name, nodes, hmax)
    # exhaustive, 3 nodes: x = one term, 3 calls in flight (everything but the stale-term and missed++ branches),
    # y = vote_after 2 / node_fail_after 2 (missed++), z (thorough) = two terms (stale-term leaders)
    elect_cfg(ctx, "Election_x.cfg", "Cfg3b", 1, 3, 1, 1 if thorough else 0, 0)
    elect_cfg(ctx, "Election_y.cfg", "Cfg3", 1, 2, 2, 0, 0)
    elect_cfg(ctx, "Election_z.cfg", "Cfg3b", 2, 2, 1, 0, 0)
    elect_cfg(ctx, "Election_sim.cfg", "Cfg45", 99, 99, 99, 1, 2, constraint=False)
    elect_cfg(ctx, "Election_sim3.cfg", "Cfg3", 99, 99, 99, 1, 2, constraint=False)

    u1 = []
    for name, _, _ in ring_cfgs:
        u1.append(("RingCheck/" + name, Bg(ctx.tlc_must_pass, "RingCheck", name, workers=4, timeout=1200, env=small)))
    u1.append(("Election/exhaustive-3-x", Bg(ctx.tlc_must_pass, "Election", "Election_x.cfg", workers=6, timeout=1500, env=mid)))
    u1.append(("Election/exhaustive-3-y", Bg(ctx.tlc_must_pass, "Election", "Election_y.cfg", workers=3, timeout=1500, env=mid)))
    if thorough:
        u1.append(("Election/exhaustive-3-z", Bg(ctx.tlc_must_pass, "Election", "Election_z.cfg", workers=8, timeout=1500, env=mid)))
    u1.append(("Election/simulate-4-5", Bg(ctx.tlc_must_pass, "Election", "Election_sim.cfg", workers=2,
                                           simulate="num=%d" % (1200 if thorough else 100), depth=80, seed=ctx.seed, timeout=1500, env=small)))
    u1.append(("Election/simulate-3", Bg(ctx.tlc_must_pass, "Election", "Election_sim3.cfg", workers=1,
                                         simulate="num=%d" % (2000 if thorough else 200), depth=80, seed=ctx.seed, timeout=1500, env=small)))

    # ------------------------------------------------------------------ schedules from the spec (as built)
    ngen, per, depth = (8, 150, 70) if thorough else (6, 40, 70)
    gens = [Bg(gen_schedules, ctx, k, 1000 * ctx.seed + k, per, depth) for k in range(ngen)]

    # ------------------------------------------------------------------ recording: ring, placement, gate
    p_ring = os.path.join(ctx.scratch, "v_ring.ndjson")
    p_place = os.path.join(ctx.scratch, "v_place.ndjson")
    env = {"VERIF_OUT": p_ring, "VERIF_C17_TABLES": 1500 if thorough else 250, "VERIF_C17_CRC": 500 if thorough else 80,
           "VERIF_C17_EXHSTEP": 1 if thorough else 16}
    if selftest:
        env["VERIF_C17_SELFTEST"] = selftest
    ringrec = Bg(ctx.go_test_must_run, "./ringhash/", "TestVerifC17Ring$", env=env)

    # ------------------------------------------------------------------ recording: package main (the binary is built once)
    binary = os.path.join(ctx.scratch, "server.test")
    rc, out, _ = ctx.go_test("./", "TestVerifC17", extra=("-c", "-o", binary))
    if rc != 0 or not os.path.exists(binary):
        import sys
        sys.stdout.write(out[-6000:])
        raise vlib.Infra("cannot build the harness of package main (build error, not a verdict)")
    env = {"VERIF_OUT": p_place, "VERIF_C17_PLACES": 600 if thorough else 120}
    if selftest:
        env["VERIF_C17_SELFTEST"] = selftest
    run_bin(ctx, binary, "TestVerifC17Place$", env)
    ringrec.get()
    sched = directed_schedules()
    for g in gens:
        sched += g.get()
    nshard = 8
    shards = [Bg(run_shard, ctx, binary, k, sched[k::nshard], 1, selftest) for k in range(nshard) if sched[k::nshard]]
    elect_lines = []
    for s in shards:
        elect_lines += s.get()
    vlib.log("recorded: %d schedules -> %d election traces (%.0fs since start)" % (len(sched), len(elect_lines), time.time() - t0))

    # ------------------------------------------------------------------ wait for U1
    u1res = {}
    for name, th in u1:
        r = th.get()
        if "simulate" in name:
            sim_counts(r)
        u1res[name] = r
        vlib.log("U1 %s: %d generated, %d distinct, %.1fs" % (name, r.generated, r.distinct, r.wall))

    # ------------------------------------------------------------------ verdict (Monitor_C17) and binding (Monitor_C17E)
    vec = os.path.join(ctx.specdir, "c17_vectors.ndjson")
    with open(vec, "w") as outfh:
        for p in (p_ring, p_place):
            with open(p) as fh:
                for line in fh:
                    outfh.write(line)
        outfh.writelines(elect_lines)
    with open(os.path.join(ctx.specdir, "c17_elect.ndjson"), "w") as fh:
        fh.writelines(elect_lines)
    vectors = vlib.read_ndjson(vec)
    traces = [v for v in vectors if v["op"] == "elect"]

    bind = Bg(run_binding, ctx, traces)
    r2, fails, divs = vlib.run_vector_monitor(ctx, "Monitor_C17", "c17_vectors.ndjson", timeout=1800, workers=10)
    r3, ediv, stuck = bind.get()
    vlib.log("monitors: %d vectors (%d election traces), %d with failing laws, %d ring/gate divergences; binding: %d steps followed, %d divergent, %d traces stuck"
             % (len(vectors), len(traces), len(fails), len(divs), r3.distinct, len(ediv), len(stuck)))

    def brief_ring(v):
        if v["op"] == "ring":
            return {"op": "ring", "mode": v["mode"], "r": v["r"],
                    "rings": [{"nodes": ["".join(map(chr, n)) for n in g["nodes"]], "sig": g["sig"],
                               "get": ["".join(map(chr, x)) for x in g["get"]][:12]} for g in v["rings"][:6]],
                    "keys": ["".join(map(chr, x)) for x in v["keys"]][:12]}
        if v["op"] == "gatehist":
            return {"op": "gatehist", "reqs": [{x: r[x] for x in ("type", "topic", "hadSession", "rejected", "reachedHub")} |
                                               {"same": r["sigA"] == r["sigB"]} for r in v["reqs"]]}
        if v["op"] == "place":
            return {"op": "place", "members": ["".join(map(chr, n)) for n in v["members"]], "sigs": [w["sig"] for w in v["views"]]}
        return v

    nfail = collections.Counter()
    for idx, mons in fails:
        v = vectors[idx - 1]
        for m in mons:
            if v["op"] == "elect":
                name, _, k = m.partition("@")
                k = int(k or 0)
                ic, site = elect_class(v, name, k)
                nfail[(name, ic)] += 1
                ctx.fail(name, brief_step(v, k), op="elect", site=site, input_class=ic)
            elif v["op"] == "gatehist":
                name, _, k = m.partition("@")
                q = v["reqs"][int(k) - 1] if k else {}
                ic = "established_multiplexing_session" if q.get("hadSession") else "first_request_of_the_pair"
                nfail[(name, ic)] += 1
                ctx.fail(name, {"op": "gatehist", "request": int(k or 0), "req": q, "history": [
                    {x: r[x] for x in ("type", "topic", "hadSession", "rejected", "reachedHub")} | {"same": r["sigA"] == r["sigB"]}
                    for r in v["reqs"][:int(k or 0)]]},
                    op="gatehist", site="server/cluster.go:456-500 (Cluster.TopicMaster)", input_class=ic, req_type=q.get("type", ""))
            else:
                nfail[(m, v["op"])] += 1
                ctx.fail(m, brief_ring(v), op=v["op"], site="server/ringhash/ringhash.go" if v["op"] == "ring" else "server/cluster.go",
                         input_class=v.get("mode", v["op"]))
    for idx, what in divs:
        ctx.divergences.append({"vector": brief_ring(vectors[idx - 1]), "what": what})
    for t, k, what in ediv[:50]:
        ctx.divergences.append({"what": what, "trace": t, **brief_step(traces[t - 1], k)})
    for t, k in stuck[:50]:
        ctx.divergences.append({"what": ["stuck: the recorded event is not enabled in the spec"], "trace": t, **brief_step(traces[t - 1], k + 1)})
    if nfail:
        vlib.log("failing laws: " + ", ".join("%s[%s] x%d" % (m, c, n) for (m, c), n in sorted(nfail.items())))

    # ------------------------------------------------------------------ evidence
    ops = collections.Counter(v["op"] for v in vectors)
    evs = collections.Counter()
    steps = elected = accepted = mismatch = stale = crashes = partsteps = skipped = 0
    for tr in traces:
        prev = tr["init"]
        skipped += tr["skipped"]
        for s in tr["steps"]:
            e, o = s["ev"], s["obs"]
            steps += 1
            evs[e["op"] + (":" + e["kind"] if e["kind"] else "")] += 1
            elected += sum(1 for n in range(tr["n"]) if o["leader"][n] == n + 1 and prev["leader"][n] != n + 1)
            if e["op"] == "deliver" and e["kind"] == "health":
                if e["t"] >= prev["term"][e["m"] - 1]:
                    accepted += 1
                    mismatch += sorted(prev["ring"][e["m"] - 1]) != sorted(e["hsig"])
                else:
                    stale += 1
            crashes += sum(1 for n in range(tr["n"]) if o["crashed"][n] and not prev["crashed"][n])
            partsteps += any(o["part"])
            prev = o
    ring_cases = [v for v in vectors if v["op"] == "ring"]
    gets = sum(len(g["get"]) for v in ring_cases for g in v["rings"])
    u1states = sum(r.distinct for r in u1res.values())
    u1trans = sum(r.generated for r in u1res.values())
    ctx.cov.update({
        "states": u1states + r2.distinct + r3.distinct, "transitions": u1trans + r2.generated + r3.generated,
        "traces_validated_against_impl": len(vectors),
        "evaluations": gets + steps + sum(len(v["views"]) * len(v["topics"]) for v in vectors if v["op"] == "place") + ops["gate"]
                       + sum(len(v["reqs"]) for v in vectors if v["op"] == "gatehist"),
        "distinct_nontrivial": len(ring_cases) + elected + accepted + stale + ops["gate"],
        "rule": "ring: every hash table 0..7 on the 4 replica strings of 2 nodes (%s), seeded random tables for 1..4 nodes from a pool with awkward names, 1..3 replicas, and the default CRC32 ring on 1..8 random names; per case all subsets/permutations/one duplicate/empty listing, Get of every key and Signature. election: TLC-simulated schedules of the as-built spec (3..5 nodes, vote_after 1..4, node_fail_after 1..2, loss/duplication/reordering/partition) replayed into real Cluster values; non-trivial = a leader elected, a health check accepted or ignored as stale, a gate probe" % ("all 4096" if thorough else "every 16th"),
        "exhaustive": False,
        "model": {k: {"generated": r.generated, "distinct": r.distinct, "wall_s": round(r.wall, 1)} for k, r in u1res.items()},
        "ring": {"cases": len(ring_cases), "gets": gets, "place_cases": ops["place"], "gate_probes": ops["gate"],
                 "gate_histories": ops["gatehist"],
                 "gate_history_requests": sum(len(v["reqs"]) for v in vectors if v["op"] == "gatehist"),
                 "gate_history_stale_on_established_session": sum(1 for v in vectors if v["op"] == "gatehist" for r in v["reqs"]
                                                                  if r["hadSession"] and r["sigA"] != r["sigB"])},
        "election": {"schedules": len(sched), "traces": len(traces), "steps": steps, "events": dict(evs), "leaders_elected": elected,
                     "health_accepted": accepted, "health_mismatching_ring": mismatch, "health_stale": stale,
                     "node_crashes_observed": crashes, "steps_with_a_partitioned_node": partsteps,
                     "schedule_events_skipped": skipped,
                     "traces_abandoned_for_ambiguous_timing": len(sched) - len(traces), "binding_steps_followed": r3.distinct, "binding_stuck": len(stuck)},
        "monitor_run": {"module": "Monitor_C17", "vectors": len(vectors)},
        "failing_laws": {"%s[%s]" % k: n for k, n in nfail.items()},
    })
    ctx.assumptions += [
        "the tick case of Cluster.run cannot be triggered from outside (the ticker is a local): the harness parks the real run() goroutine and calls the real sendHealthChecks()/electLeader() itself, keeping the local counter `missed` (3 lines of run()) in the harness",
        "transport: real net/rpc clients over an in-process codec; an error always means the rpc client is closed (as the code does), a lost request/reply is a broken connection; gob encoding is not exercised",
        "a ring is identified with its member set in the election model (justified by the ring half: equal member set <=> equal signature)",
        "no node restarts (the property speaks of nodes that kept their state); Cluster.TopicProxy carries no signature and is not gated (not part of the probe)",
        "hash/crc32 (stdlib) is the reference for the default hash in mode crc",
    ]
    samples = []
    if ring_cases:
        samples.append(brief_ring(ring_cases[len(ring_cases) // 2]))
    if traces:
        tr = traces[len(traces) // 2]
        samples.append(brief_step(tr, min(10, len(tr["steps"]))))
    return ctx.finish(level="model_checking", samples=samples)


def run_binding(ctx, traces):
    """Monitor_C17E: follow every recorded trace with the spec; returns (tlc result, divergent steps, stuck traces)."""
    dump = os.path.join(ctx.scratch, "Monitor_C17E_st")
    r = ctx.tlc("Monitor_C17E", "Monitor_C17E.cfg", workers=6, timeout=1800, extra=["-dump", dump])
    if not r.ok:
        import sys
        sys.stdout.write(r.out[-5000:])
        raise vlib.Infra("binding run Monitor_C17E failed to evaluate (spec/trace format problem, not a verdict): %s" % r.error)
    reached = collections.defaultdict(int)
    ediv = []
    for st in vlib.parse_dump(dump + ".dump", fields=("tr", "k", "div")):
        t, k = int(st["tr"]), int(st["k"])
        reached[t] = max(reached[t], k)
        if st.get("div", "{}") != "{}":
            ediv.append((t, k, vlib.parse_tla_strset(st["div"])))
    os.remove(dump + ".dump")
    stuck = [(t, reached[t]) for t in range(1, len(traces) + 1) if reached[t] < len(traces[t - 1]["steps"])]
    return r, sorted(ediv), stuck
