"""C18 — multi-row store updates are all-or-nothing.
MySQL adapter over a fake database/sql driver, PostgreSQL adapter over a fake wire-protocol backend, store mappers over both."""
import os, json, collections, concurrent.futures
import vlib

DEVS = ("DEV_CredUpsertShadowedErr", "DEV_PgCredUpsertShadowedErr", "DEV_UsersCreateCompensates", "DEV_TopicsCreateTwoTx", "DEV_DeleteListThreeTx")


def site_of(v):
    """Stable identity of the round trip that was made to fail: level.op/tx<j>/<EVENT[:VERB:table]>#<occurrence in that tx>."""
    k = v["k"]
    txno, seen, hit = 0, collections.Counter(), None
    for e in v["events"]:
        if e["pos"] <= 0:
            continue
        if e["e"] == "BEGIN":
            txno += 1
            seen = collections.Counter()
        key = e["e"] if not e["verb"] else "%s:%s:%s" % (e["e"], e["verb"], e["tbl"])
        seen[key] += 1
        if e["pos"] == k:
            hit = "tx%d/%s#%d" % (txno, key, seen[key])
            break
    lvl = "store" if v["level"] == "store" else ("postgres" if v["dialect"] == "pg" else "mysql")
    return "%s.%s/%s" % (lvl, v["op"], hit or "-")


def brief(v, full):
    def ev(e):
        s = e["e"]
        if e["verb"]:
            s += " %s %s" % (e["verb"], e["tbl"])
        if not e["ok"]:
            s += " FAILED(%s)" % e["res"]
        if e["e"] in ("STMT", "PREP") and not e["intx"]:
            s += " [no tx]"
        return "c%d:%s" % (e["c"], s)
    return {"adapter": "postgres" if v["dialect"] == "pg" else "mysql", "op": v["op"], "branch": v["branch"], "cfg": v["cfg"], "fault": v["fault"], "k": v["k"], "at": v["at"],
            "events": [ev(e) for e in v["events"]], "returned_err": v["returned_err"], "error": full.get("errtext", ""),
            "open_tx_after": v["open_tx_after"], "connections_never_released": v["inuse_after"],
            "fault_free_round_trips": v["n"], "fault_free_writes": v["nw"]}


def run(ctx):
    thorough = ctx.tier == "thorough"
    pool = concurrent.futures.ThreadPoolExecutor(max_workers=10)

    # ---- E4: the real adapters and the real store mappers under the fake driver / fake backend
    out = os.path.join(ctx.scratch, "c18_raw.ndjson")
    env = {"VERIF_OUT": out, "VERIF_C18_VARIANTS": 2000 if thorough else 40, "VERIF_C18_STORE_VARIANTS": 120 if thorough else 6}
    f_my = pool.submit(ctx.go_test_must_run, "./db/mysql/", "TestVerifC18(Adapter|Store)$", tags="verif mysql", timeout=900, env=env, extra=["-v"])
    f_pg = pool.submit(ctx.go_test_must_run, "./db/postgres/", "TestVerifC18Pg(Adapter|Store)$", tags="verif postgres", timeout=900, env=env, extra=["-v"])
    # ---- U1: design check of the as-intended discipline under both sets of semantics (database/sql+MySQL, pgx+PostgreSQL):
    # generic programs, then the concrete program table; and sanity runs that MUST be violated (the model reproduces the
    # known deviations / catches the mutation).
    w = max(2, vlib.NCPU // 4)
    sfx = "_thorough.cfg" if thorough else ".cfg"
    f_must = {name: pool.submit(ctx.tlc_must_pass, "Tx", cfg, workers=wk, timeout=1500) for name, cfg, wk in (
        ("generic/mysql", "Tx" + sfx, vlib.NCPU // 2), ("generic/pg", "TxPg" + sfx, vlib.NCPU // 2),
        ("table/mysql", "Tx_table.cfg", w), ("table/pg", "TxPg_table.cfg", w))}
    f_san = {name: pool.submit(ctx.tlc, "Tx", cfg, workers=w, timeout=900) for name, cfg in (
        ("InvNoOpenTxAtReturn/mysql", "Tx_asbuilt_open.cfg"), ("InvNoOpenTxAtReturn/pg", "TxPg_asbuilt_open.cfg"),
        ("InvAllOrNothing/mappers", "Tx_asbuilt_atomic.cfg"), ("InvNoOpenTxAtReturn/mutant", "Tx_mutant.cfg"))}

    (_, wall_my), (_, wall_pg) = f_my.result(), f_pg.result()
    full = []
    for sfx2 in ("", ".store", ".pg", ".pgstore"):
        full += vlib.read_ndjson(out + sfx2)
    if not full:
        raise vlib.Infra("recorder wrote no traces")
    vectors = []
    for r in full:
        v = {k: r[k] for k in r if k not in ("sql", "errtext")}
        vectors.append(v)
    vlib.write_ndjson(os.path.join(ctx.specdir, "c18_vectors.ndjson"), vectors)
    cnt = collections.Counter((v["dialect"], v["level"] == "store") for v in vectors)
    vlib.log("recorded %d runs: mysql %d adapter-level + %d store-level (%.1fs), postgres %d + %d (%.1fs)" % (
        len(vectors), cnt[("mysql", False)], cnt[("mysql", True)], wall_my, cnt[("pg", False)], cnt[("pg", True)], wall_pg))

    res = {name: f.result() for name, f in f_must.items()}
    r1, r1b = res["generic/mysql"], res["table/mysql"]
    vlib.log("U1 " + "; ".join("%s: %d states, %.1fs" % (n, r.distinct, r.wall) for n, r in res.items()))
    for name, fut in f_san.items():
        r = fut.result()
        inv = name.split("/")[0]
        if inv not in r.violated_invariants:
            import sys
            sys.stdout.write(r.out[-3000:])
            raise vlib.Infra("sanity run for %s did not produce the expected model counterexample: the spec lost its teeth" % name)
    vlib.log("sanity: as-built CredUpsert model (both adapters) violates NoOpenTxAtReturn, as-built mapper compositions violate AllOrNothing, shadowed-err mutant is caught")

    # ---- which as-built variant of the model the binding is held against: the CredUpsert deviation is recognised from the
    # source text (so that a `fix:` commit in /repo is followed without editing the spec); this selects the PREDICTION only,
    # the verdict below never depends on it.
    src = open(os.path.join(vlib.REPO, "server/db/mysql/adapter.go")).read()
    shadowed = 'res, err := tx.Exec("UPDATE credentials SET updatedat=?,deletedat=NULL' in src
    srcpg = open(os.path.join(vlib.REPO, "server/db/postgres/adapter.go")).read()
    shadowed_pg = 'res, err := tx.Exec(ctx, "UPDATE credentials SET updatedat=$1,deletedat=NULL' in srcpg
    cfgp = os.path.join(ctx.specdir, "Monitor_C18.cfg")
    cfg = open(cfgp).read().replace("DEV_CredUpsertShadowedErr = TRUE", "DEV_CredUpsertShadowedErr = %s" % ("TRUE" if shadowed else "FALSE"))
    cfg = cfg.replace("DEV_PgCredUpsertShadowedErr = TRUE", "DEV_PgCredUpsertShadowedErr = %s" % ("TRUE" if shadowed_pg else "FALSE"))
    open(cfgp, "w").write(cfg)

    # ---- verdict and binding by TLC
    r2, fails, divs = vlib.run_vector_monitor(ctx, "Monitor_C18", "c18_vectors.ndjson", timeout=1800)
    vlib.log("monitors: %d traces, %d with monitor failures, %d divergences, %.1fs" % (len(vectors), len(fails), len(divs), r2.wall))
    for k, mons in fails:
        v = vectors[k - 1]
        for m in mons:
            ctx.fail(m, brief(v, full[k - 1]), adapter="postgres" if v["dialect"] == "pg" else "mysql", op=v["op"], branch=v["branch"],
                     cfg=v["cfg"], fault=v["fault"], k=v["k"], site=site_of(v),
                     input_class="%s/%s/%s/%s" % (v["dialect"], v["level"], v["fault"], v["cfg"]))
    for k, what in divs:
        ctx.divergences.append({"trace": brief(vectors[k - 1], full[k - 1]), "what": what})

    ops = collections.Counter(v["op"] for v in vectors)
    branches = {(v["dialect"], v["op"], v["branch"]) for v in vectors}
    faults = collections.Counter(v["fault"] for v in vectors)
    nontrivial = sum(1 for v in vectors if v["applied"])
    positions = {(v["dialect"], v["op"], v["branch"], v["cfg"], v["k"]) for v in vectors if v["k"] > 0}
    ctx.cov.update({
        "states": sum(r.distinct for r in res.values()) + r2.distinct, "transitions": sum(r.generated for r in res.values()) + r2.generated,
        "traces_validated_against_impl": len(vectors),
        "evaluations": sum(len(v["events"]) for v in vectors), "distinct_nontrivial": nontrivial,
        "rule": "for BOTH SQL adapters (server/db/mysql over a fake database/sql driver, server/db/postgres over a fake wire-protocol backend): "
                "all 20 transactional methods (every method that calls BeginTxx/BeginTx/Begin except the schema tools CreateDb/UpgradeDb) "
                "x %d (adapter, op, branch) combinations (canned results / argument shapes; %d seeded variants per adapter) x {sql_timeout unset, set} "
                "x every round-trip position k (BEGIN, PREPARE, each statement, COMMIT) x {statement error, connection loss, "
                "result-set error on queries (mysql), deadline expiry (timeout config)}; 13 single-statement writers for NoWriteOutsideTx; "
                "mapper compositions Users.Create, Topics.Create, Messages.DeleteList through the real store.go on each adapter "
                "x every position x {error, connection loss, outage}; non-trivial = a fault was actually injected" % (
                    len(branches), 2000 if thorough else 40),
        "per_op": dict(ops), "per_fault": dict(faults), "per_adapter": {"mysql": cnt[("mysql", False)] + cnt[("mysql", True)],
                                                                          "postgres": cnt[("pg", False)] + cnt[("pg", True)]},
        "branches": len(branches), "fault_positions": len(positions),
        "exhaustive": True,
        "model": {"module": "Tx", "max_statements": 4 if thorough else 3,
                  "runs": {n: {"generated": r.generated, "distinct": r.distinct} for n, r in res.items()}},
        "monitor_run": {"module": "Monitor_C18", "vectors": len(vectors),
                        "as_built": [d for d in DEVS if (d != "DEV_CredUpsertShadowedErr" or shadowed) and (d != "DEV_PgCredUpsertShadowedErr" or shadowed_pg)]},
        "level_note": "both SQL adapters are executed for real (MySQL: database/sql seam; PostgreSQL: pgxpool over an in-process fake backend "
                      "speaking the wire protocol with pgproto3); the MongoDB and RethinkDB adapters are outside the property (no transactions)",
    })
    ctx.assumptions += [
        "the database honours BEGIN/COMMIT/ROLLBACK (a rolled-back or lost transaction has no effect; a failed COMMIT commits nothing)",
        "database/sql and sqlx behave as shipped (they are executed for real; only the driver below them is fake)",
        "one round trip per statement: the fakes answer Exec/Query directly; the real MySQL driver may use prepare+execute+close and pgx "
        "Parse/Describe before the first Bind/Execute of a statement text for the same call (plumbing, not counted as positions)",
        "the fake PostgreSQL backend keeps the aborted-transaction semantics (25P02 until ROLLBACK [TO SAVEPOINT], COMMIT answers ROLLBACK)",
        "a compensating transaction is judged at table granularity: a later committed, purely deleting transaction that deletes from every table "
        "the earlier one wrote to cancels it",
        "CreateDb/UpgradeDb (DDL, auto-committed by MySQL) are outside the property's list of operations",
    ]
    pick = [v for v in vectors if v["op"] == "TopicDelete" and v["fault"] == "err" and v["k"] == 3][:1] + \
           [v for v in vectors if v["dialect"] == "pg" and v["op"] == "TopicShare" and v["fault"] == "err" and v["k"] == 2][:1] + \
           [v for v in vectors if v["op"] == "UserCreate" and v["fault"] == "deadline" and v["k"] == 4][:1] + \
           [v for v in vectors if v["op"] == "Users.Create" and v["fault"] == "err" and v["at"] == "STMT"][-1:] + \
           [v for v in vectors if v["op"] == "MessageDeleteList" and v["fault"] == "none"][:1]
    samples = [brief(v, {}) for v in pick]
    return ctx.finish(level="model_checking", samples=samples)
