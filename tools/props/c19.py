"""C19 — search finds only what the query and the tag rules allow."""
import os, json, collections, concurrent.futures
import vlib

A9 = [97, 66, 49, 32, 9, 44, 34, 58, 233]       # a B 1 SP TAB , " : e-acute   (DESIGN.md alphabet, B for lower-casing)
A4 = [97, 32, 44, 34]                           # a SP , "                     (drives every branch of the automaton)
E8 = [97, 64, 46, 49, 37, 44, 32, 34]           # a @ . 1 % , SP "             (e-mail addresses can be spelled)

SITES = {
    "WellFormedQueryAccepted": "parseSearchQuery/open-quote-before-emit",
    "MalformedQueryRejected": "parseSearchQuery/close-quote-no-check",
    "QueryMeansWhatIsDocumented": "parseSearchQuery",
    "RewriteOnlyWhenConfigured": "rewriteTag",
    "ImmutableNsUntouchable": "filterRestrictedTags/prefixedTagRegexp",
    "MaskedNsOnlyOwn": "filterRestrictedTags/prefixedTagRegexp",
    "FilterOnlyReserved": "filterRestrictedTags",
    "StoredTagsNormalised": "normalizeTags",
    "RejectedChangesNothing": "Topic.replySetTags",
    "ActiveOnlyForNonRoot": "Topic.replyGetSub/fnd",
    "TopicTagCacheMatchesStore": "Topic.replyDelCred/tag-cache",
    "HonestSetAccepted": "Topic.replySetTags/tag-cache",
    "DelCredRemovesItsTag": "deleteCred",
    "CreationStoresNoReservedTag": "initTopicNewGrp/replyCreateUser",
}


def S(a):
    return "".join(map(chr, a))


def brief(v):
    """Readable form of a recorded vector (code points -> text)."""
    def conv(x):
        if isinstance(x, list):
            if x and all(isinstance(i, int) for i in x):
                return S(x)
            return [conv(i) for i in x]
        if isinstance(x, dict):
            return {k: conv(i) for k, i in x.items()}
        return x
    out = {}
    for k, x in v.items():
        out[k] = S(x) if k == "q" else conv(x)
    if out.get("op") == "parse":
        out["res"] = out["res"][:3]
    return out


def parse_cfg(alphabet, maxlen, cfgnames, invs):
    return ("CONSTANTS\n  DEV_QuoteFlagsBeforeEmit = FALSE\n  DEV_GluedAfterAccepted = FALSE\n"
            "  DEV_RestrictedNeedsValidBody = FALSE\n  DEV_DelCredEmptyListIsNil = FALSE\n  Alphabet = {%s}\n  MaxLen = %d\n  CfgNames = {%s}\n"
            "SPECIFICATION Spec\nINVARIANTS %s\nCHECK_DEADLOCK FALSE\n" % (
                ", ".join(map(str, alphabet)), maxlen, ", ".join('"%s"' % c for c in cfgnames), " ".join(invs)))


def run(ctx):
    thorough = ctx.tier == "thorough"
    allcfg = ["allon", "alloff", "nologin", "nobasic", "emailonly", "telonly", "loginonly"]

    # ------------------------------------------------------------------ U1 design checks (as intended: all DEV_* = FALSE)
    u1 = [  # name, alphabet, maxlen, cfgs, invariants, workers
        ("A9", A9, 6 if thorough else 5, ["allon", "alloff"], ["ImplIsSem"], 8),
        ("A4", A4, 10 if thorough else 8, ["allon"], ["ImplIsSem"], 4),
        ("E8", E8, 5 if thorough else 4, allcfg, ["ImplIsSem"], 4),
        ("Laws", A9, 5 if thorough else 4, ["allon"], ["SemLaws"], 4),
    ]
    for name, alpha, maxlen, cfgs, invs, _ in u1:
        with open(os.path.join(ctx.specdir, "QueryParse_%s.cfg" % name), "w") as fh:
            fh.write(parse_cfg(alpha, maxlen, cfgs, invs))
    tagcfg = open(os.path.join(ctx.specdir, "QueryTags.cfg")).read()
    if not thorough:
        tagcfg = tagcfg.replace("Small = FALSE", "Small = TRUE")
        with open(os.path.join(ctx.specdir, "QueryTags.cfg"), "w") as fh:
            fh.write(tagcfg)
    witnesses = ["NeverDeniedSearch", "NeverMaskedSearchAllowed", "NeverSetDenied", "NeverSetOkWithImmutable",
                 "NeverDelCredRemovesTag", "NeverDelCredOfLastTag", "NeverReaddAttempt", "NeverCreateDenied", "NeverCreateWithMaskedOnlyTag"]
    for wname in witnesses:
        with open(os.path.join(ctx.specdir, "QueryTags_%s.cfg" % wname), "w") as fh:
            fh.write("\n".join(l for l in tagcfg.splitlines() if not l.startswith(("INVARIANTS", "PROPERTIES")))
                     + "\nINVARIANTS %s\n" % wname)
    if thorough:
        with open(os.path.join(ctx.specdir, "QueryTags_3.cfg"), "w") as fh:
            fh.write(tagcfg.replace("MaxCount = 2", "MaxCount = 3"))

    vec = os.path.join(ctx.specdir, "c19_vectors.ndjson")
    env = {"VERIF_OUT": vec,
           "VERIF_C19_L1": 5 if thorough else 4, "VERIF_C19_L4": 8 if thorough else 6, "VERIF_C19_L2": 5 if thorough else 4,
           "VERIF_C19_L3STRIDE": 1 if thorough else 5, "VERIF_C19_L3RAND": 4000 if thorough else 500,
           "VERIF_C19_RAND": 20000 if thorough else 2000, "VERIF_C19_TAGSTRIDE": 1 if thorough else 3,
           "VERIF_C19_WALKS": 200 if thorough else 30, "VERIF_C19_HWALKS": 400 if thorough else 40,
           "VERIF_C19_CRSTRIDE": 1 if thorough else 3}
    if os.environ.get("VERIF_C19_SELFTEST"):
        env["VERIF_C19_SELFTEST"] = os.environ["VERIF_C19_SELFTEST"]

    def u1_parse(item):
        name, _, _, _, _, workers = item
        return name, ctx.tlc_must_pass("QueryParse", "QueryParse_%s.cfg" % name, workers=workers, timeout=1500)

    def u1_tags(_):
        res = [("Tags", ctx.tlc_must_pass("QueryTags", "QueryTags.cfg", workers=6, timeout=900))]
        if thorough:
            res.append(("Tags3", ctx.tlc_must_pass("QueryTags", "QueryTags_3.cfg", workers=6, timeout=900)))
        return res

    def u1_witness(wname):
        r = ctx.tlc("QueryTags", "QueryTags_%s.cfg" % wname, workers=2, timeout=600)
        if wname not in r.violated_invariants:
            raise vlib.Infra("vacuity: the model never reaches a state refuting %s (%s)" % (wname, r.error))
        return []

    def record(_):
        return ctx.go_test_must_run("./", "^TestVerifC19Record$", env=env, timeout=1500)

    results = {}
    with concurrent.futures.ThreadPoolExecutor(max_workers=11) as ex:
        futs = [ex.submit(u1_parse, it) for it in u1] + [ex.submit(u1_tags, None)] + [ex.submit(u1_witness, w) for w in witnesses]
        frec = ex.submit(record, None)
        for f in futs:
            r = f.result()
            for name, tr in ([r] if isinstance(r, tuple) else r):
                results[name] = tr
        _, gowall = frec.result()
    for name in sorted(results):
        tr = results[name]
        vlib.log("U1 %-5s: %d states generated, %d distinct, %.1fs" % (name, tr.generated, tr.distinct, tr.wall))

    # ------------------------------------------------------------------ verdict by TLC over the recorded vectors
    # The binding (div) compares with the AS-BUILT model (Monitor_C19.cfg: DEV_* = TRUE).  Once a deviation is repaired
    # in /repo its DEV_ constant must be set to FALSE there; VERIF_C19_ASINTENDED=1 does that for all three for one run
    # (used to validate a candidate repair against the as-intended model).
    asint = os.environ.get("VERIF_C19_ASINTENDED")      # "1" = all, or a comma list of DEV_ names without the prefix
    if asint:
        mc = os.path.join(ctx.specdir, "Monitor_C19.cfg")
        txt = open(mc).read()
        if asint == "1":
            txt = txt.replace("= TRUE", "= FALSE")
        else:
            for name in asint.split(","):
                txt = txt.replace("DEV_%s = TRUE" % name.strip(), "DEV_%s = FALSE" % name.strip())
        open(mc, "w").write(txt)
    vectors = vlib.read_ndjson(vec)
    r2, fails, divs = vlib.run_vector_monitor(ctx, "Monitor_C19", "c19_vectors.ndjson", timeout=2400)
    vlib.log("recorded %d vectors in %.1fs; monitors: %d vectors failing, %d diverging, %.1fs" % (
        len(vectors), gowall, len(fails), len(divs), r2.wall))

    classes = collections.Counter()
    for k, mons in fails:
        v = vectors[k - 1]
        for m in mons:
            name, _, cls = m.partition(":")
            classes[(v["op"], m)] += 1
            site = SITES.get(name, "?")
            if cls == "stale_topic_tag_cache":
                site = "Topic.replyDelCred/tag-cache"
            ctx.fail(name, brief(v), site=site, input_class=cls, op=v["op"],
                     input=S(v["q"]) if "q" in v else "")
    for k, what in divs:
        ctx.divergences.append({"vector": brief(vectors[k - 1]), "what": what})
    if classes:
        vlib.log("monitor failures by (op, monitor:class): %s" % json.dumps({"%s %s" % k: n for k, n in sorted(classes.items())}))

    ops = collections.Counter(v["op"] for v in vectors)
    doms = collections.Counter(v.get("dom", v["op"]) for v in vectors)
    evals = sum(len(v["res"]) if v["op"] == "parse" else 1 for v in vectors)
    nontriv = sum(1 for v in vectors if (v["op"] == "parse" and any(r["err"] or r["req"] or r["opt"] for r in v["res"]))
                  or (v["op"] == "normalize" and v["raw"]) or (v["op"] == "restricted" and (v["fold"] or v["fnew"] or not v["eq"]))
                  or (v["op"] == "settags" and (v["code"] != 304)) or (v["op"] == "fnd" and v["q"])
                  or (v["op"] == "create" and v["raw"])
                  or (v["op"] == "hist" and (v["storedPre"] != v["storedPost"] or v["code"] >= 400)))
    ctx.cov.update({
        "states": sum(t.distinct for t in results.values()) + r2.distinct,
        "transitions": sum(t.generated for t in results.values()) + r2.generated,
        "traces_validated_against_impl": len(vectors), "evaluations": evals, "distinct_nontrivial": nontriv,
        "rule": "U1: Impl(q)=Sem(q) for every string over {a,B,1,SP,TAB,comma,quote,colon,e-acute} up to length %d, over {a,SP,comma,quote} up to %d, "
                "over {a,@,.,1,%%,comma,SP,quote} up to %d under 7 indexing configurations; tag machine over every configuration of "
                "{rest,email} as immutable/masked. Real code: parseSearchQuery on every string of the same alphabets up to length %d/%d/%d, "
                "term-vocabulary queries (all pairs%s, seeded longer ones) under all 16 configurations, seeded random strings; normalizeTags on all "
                "lists of <=2 (sampled 3) of 20 raw tags; restrictedTagsEqual/filterRestrictedTags on all pairs of <=2-subsets of 9 tags x 4 namespace sets; "
                "tags at creation time through the real initTopicNewGrp (new/nch) and replyCreateUser (anonymous, basic) over all lists of <=2 (seeded 3) of 16 raw tags "
                "x 4 (immutable, masked) configurations incl. two where the sets differ, followed by {set tags} histories on the created object; "
                "replySetTags single steps and seeded walks; histories on a live me topic through the real handleMeta ({set tags}, {del what=cred}, "
                "server-side credential tags): 216 scripted 'credential tag -> del cred -> set tags' histories + seeded walks, stored and cached tags after every step; fnd handler on 7 tag sets x 17 queries x 4 masked sets x 3 levels x public/private x e-mail indexing"
                % (u1[0][2], u1[1][2], u1[2][2], env["VERIF_C19_L1"], env["VERIF_C19_L4"], env["VERIF_C19_L2"], "" if thorough else " every 5th"),
        "per_op": dict(ops), "per_domain": dict(doms), "exhaustive": bool(thorough),
        "model": {name: {"generated": t.generated, "distinct": t.distinct, "wall_s": round(t.wall, 1)} for name, t in results.items()},
        "monitor_run": {"module": "Monitor_C19", "vectors": len(vectors), "wall_s": round(r2.wall, 1)},
        "failure_classes": {"%s %s" % k: n for k, n in sorted(classes.items())},
    })
    ctx.assumptions += [
        "what 'looks like' an e-mail / phone / login is what the real validators (net/mail, libphonenumber) and the basic authenticator accept; the model "
        "spells out the e-mail and login rules and tabulates the phone numbers of the vector domain (binding checked, zero divergences)",
        "characters outside the modelled universe (ASCII letters/digits, e-acute, u-umlaut, CJK ideographs, SP, TAB, and , \" : @ . _ + - % ' ! ? #) behave like their class",
        "creation is driven at initTopicNewGrp / replyCreateUser level (hub registration, session handshake and the adapters are not run; "
        "store.Topics.Create / store.Users.Create are recording stubs)",
        "server-side additions of credential tags ({set cred} with a valid response) are simulated: the store adds the tag and the topic takes the "
        "returned list as replySetCred does (topic.go:2951); {del what=cred} and {set tags} go through the real Topic.handleMeta",
        "the recording store mirrors the SQL adapters' UserUpdateTags (and the reference adapter memadp): an empty tag list is returned as a nil slice",
    ]
    samples = [brief(vectors[i]) for i in (0, 3000, len(vectors) // 2, len(vectors) - 1) if i < len(vectors)]
    return ctx.finish(level="model_checking", samples=samples)
