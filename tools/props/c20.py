"""C20 — identifiers, topic names and messages mean the same in every encoding."""
import os, re, json, collections
import vlib


def chars(x):
    return "".join(x) if isinstance(x, list) and all(isinstance(c, str) for c in x) else x


def brief(v):
    """A recorded vector in readable form (texts joined, long lists cut)."""
    if v["op"] == "msg":
        diff = [f for f in v["fields"] if f["j"] != f["p"] and f["cls"] not in ("obj", "elem", "list")]
        return {"op": "msg", "dir": v["dir"], "kind": v["kind"], "shape": v["shape"], "json": v["json"][:600],
                "differing_fields": diff[:8]}
    out = {}
    for k, x in v.items():
        if k == "rows":
            out[k] = "%d rows" % len(x)
        elif isinstance(x, dict):
            out[k] = {a: chars(b) for a, b in x.items()}
        else:
            out[k] = chars(x)
    return out


def norm_field(f):
    return re.sub(r"\.\d+(?=\.|$)", ".N", f)


GETOPTS = re.compile(r"(^|\.)get\.(desc|sub|data)\.(user|topic|since|before|ims|limit)$")


def signature(v, mon):
    """(monitor, site, input_class, detail) for one failed monitor on one vector."""
    op = v["op"]
    if op == "msg":
        name, _, field = mon.partition(":")
        fld = next((f for f in v["fields"] if f["f"] == field), {"cls": "?", "j": "?", "p": "?"})
        if v["dir"] == "cli":
            if name == "GrpcRequestDecodesLikeJson":
                site = "pbCliDeserialize(panic)"
            elif name == "GrpcRequestSelectorSameAsJson":
                site = "pbSetQueryDeserialize"
            elif GETOPTS.search(field) and fld["p"] == "":
                site = "pbGetQueryDeserialize"
            elif fld["cls"] == "time":
                site = "int64ToTime"
            else:
                site = "pbCliDeserialize"
        else:
            if re.search(r"^meta\.cred\.\d+\.done$", field):
                site = "pbServerCredsSerialize"
            elif field == "ctrl.params":
                site = "pbServCtrlSerialize"
            elif fld["cls"] == "time":
                site = "timeToInt64"
            else:
                site = "pbServSerialize"
        cls = norm_field(field) + ("(empty object)" if name == "GrpcRequestSelectorSameAsJson" else "")
        if v["shape"] and v["shape"][0].startswith("ctor:"):
            cls += "@" + v["shape"][0][5:]
        if name == "GrpcRequestDecodesLikeJson":
            # the empty nested objects of the request (present, nothing inside) name the class
            sh = v["shape"]
            empties = [p for p in sh if p.startswith(v["kind"] + ".") and not any(q.startswith(p + ".") for q in sh)
                       and any(f["f"] == p and f["cls"] in ("obj", "elem") for f in v.get("allnodes", []))]
            cls = "+".join(sorted(empties)) + "(empty object)" if empties else "+".join(sh)
        return name, site, cls, {"field": field, "json_path_value": fld["j"], "protobuf_path_value": fld["p"], "vector": brief(v)}
    if op == "dec":
        return mon, v["fn"], v["cls"], brief(v)
    if op == "p2pdec":
        return mon, "ParseP2P", v["cls"], brief(v)
    if op == "uid":
        zero = not any(v["n"])
        site = {"Base32RoundTrip": "ParseUid32(String32)", "JsonRoundTripZero": "Uid.UnmarshalJSON", "JsonRoundTrip": "Uid.UnmarshalJSON",
                "TextRoundTrip": "Uid.UnmarshalText", "Base64RoundTrip": "ParseUid(String)", "UserIdRoundTrip": "ParseUserId(UserId)",
                "DatabaseRoundTrip": "UidGenerator", "StoreHeaderRoundTrip": "ObjHeader.Uid"}.get(mon, "Uid")
        return mon, site, "zero" if zero else "nonzero_id", brief(v)
    site = {"p2p": "P2PName/ParseP2P/P2PNameForUser", "p2pinj": "P2PName", "uidinj": "Uid.String", "grpchn": "GrpToChn/ChnToGrp",
            "dbint": "UidGenerator", "sess_p2p": "expandTopicName/topicNameForUser", "sess_name": "expandTopicName/topicNameForUser"}.get(op, op)
    return mon, site, op, brief(v)


def nontrivial(v):
    op = v["op"]
    if op == "uid":
        return any(v["n"])
    if op == "dec":
        return v["cls"] not in ("valid", "lower_canonical")
    if op == "p2p":
        return v["ab"] != []
    if op == "msg":
        return len(v["shape"]) > 0
    return op != "schema"


def run(ctx):
    thorough = ctx.tier == "thorough"
    # ---- U1: design check of the as-intended codec on scaled ids (1-byte and 2-byte), exhaustive
    u1 = []
    for cfg in (("CodecCheck_W1.cfg", "CodecCheck_W2.cfg") if thorough else ("CodecCheck_W1q.cfg", "CodecCheck_W2q.cfg")):
        r = ctx.tlc_must_pass("CodecCheck", cfg, timeout=900)
        vlib.log("U1 CodecCheck/%s: %d states generated, %d distinct, %.1fs" % (cfg, r.generated, r.distinct, r.wall))
        u1.append((cfg, r))
    # ---- U1 (messages): shape lattice, pairwise coverage checked by TLC, shapes emitted for the recorder
    rs = ctx.tlc_must_pass("MsgShapes", "MsgShapes_K3.cfg" if thorough else "MsgShapes.cfg", workers=2, timeout=900)
    shapes = os.path.join(ctx.specdir, "c20_shapes.ndjson")
    if not os.path.exists(shapes):
        raise vlib.Infra("MsgShapes did not write c20_shapes.ndjson")
    nshapes = sum(1 for l in open(shapes) if '"op":"shape"' in l)
    vlib.log("U1 MsgShapes: %d shapes over 15 message kinds, pairwise coverage checked, %.1fs" % (nshapes, rs.wall))

    # ---- E3: real functions
    p1 = os.path.join(ctx.scratch, "v_types.ndjson")
    p2 = os.path.join(ctx.scratch, "v_names.ndjson")
    p3 = os.path.join(ctx.scratch, "v_msgs.ndjson")
    env = {"VERIF_C20_RANDOM": 20000 if thorough else 1500, "VERIF_C20_BASES": 60 if thorough else 10,
           "VERIF_C20_PAIRS": 4000 if thorough else 400}
    for k in ("VERIF_C20_SELFTEST",):
        if os.environ.get(k):
            env[k] = os.environ[k]
    ctx.go_test_must_run("./store/types/", "TestVerifC20Codec", env=dict(env, VERIF_OUT=p1))
    ctx.go_test_must_run("./", "TestVerifC20Names", env=dict(env, VERIF_OUT=p2))
    ctx.go_test_must_run("./", "TestVerifC20Msgs", env=dict(env, VERIF_OUT=p3, VERIF_IN=shapes))
    vec = os.path.join(ctx.specdir, "c20_vectors.ndjson")
    with open(vec, "w") as out:
        for p in (p1, p2, p3):
            with open(p) as fh:
                for line in fh:
                    out.write(line)
    vectors = vlib.read_ndjson(vec)
    r2, fails, divs = vlib.run_vector_monitor(ctx, "Monitor_C20", "c20_vectors.ndjson", timeout=2400)
    vlib.log("monitors: %d vectors, %d vectors with monitor failures, %d with divergences, %.1fs" % (len(vectors), len(fails), len(divs), r2.wall))

    # ---- verdicts: one failure per (monitor, site, input class), with the number of vectors and the first one
    agg = collections.OrderedDict()
    for k, mons in fails:
        v = vectors[k - 1]
        for m in mons:
            name, site, cls, detail = signature(v, m)
            key = (name, site, cls)
            if key not in agg:
                agg[key] = [0, detail]
            agg[key][0] += 1
    for (name, site, cls), (n, detail) in agg.items():
        ctx.fail(name, {"vectors_failing": n, "first": detail}, site=site, input_class=cls)
    for k, what in divs:
        ctx.divergences.append({"vector": brief(vectors[k - 1]), "what": what})

    ops = collections.Counter(v["op"] + ("/" + v["dir"] if v["op"] == "msg" else "") for v in vectors)
    deccls = collections.Counter("%s/%s" % (v["fn"], v["cls"]) for v in vectors if v["op"] == "dec")
    kinds = collections.Counter("%s/%s" % (v["dir"], v["kind"]) for v in vectors if v["op"] == "msg")
    fields_compared = sum(len(v["fields"]) for v in vectors if v["op"] == "msg")
    rt = collections.Counter()
    for v in vectors:
        if v["op"] == "msg":
            for f in v["rt"]:
                rt["%s:%s" % (v["dir"], norm_field(f))] += 1
    nt = sum(1 for v in vectors if nontrivial(v))
    ctx.cov.update({
        "states": sum(r.distinct for _, r in u1) + rs.distinct + r2.distinct,
        "transitions": sum(r.generated for _, r in u1) + rs.generated + r2.generated,
        "traces_validated_against_impl": len(vectors),
        "evaluations": len(vectors) - ops["msg/cli"] - ops["msg/srv"] + fields_compared,
        "distinct_nontrivial": nt,
        "rule": "ids: 0, 1, 2, 2^k-1/2^k/2^k+1 for k<64, 2^64-1, byte patterns, every last-character value, plus seeded random 64-bit ids, "
                "each through String/MarshalText/JSON/String32/UserId/PrefixId/MarshalBinary/ObjHeader/UidGenerator and back; "
                "texts offered as ids: valid, non-zero trailing bits, too short/long, padding, 11 foreign characters at 3 positions, "
                "wrong/upper-case prefixes, bad JSON, base32 in both cases with newline/padding/too-long, per base id; "
                "p2p: all ordered pairs of a 24-id set + seeded random pairs (neighbours, shared halves, byte-swapped), malformed p2p names "
                "(trailing bits, swapped, self, zero member, lengths, alphabet, prefixes); grp/chn names incl. bodies containing grp/chn; "
                "messages: every shape TLC enumerates from MsgShapes (all sets of <=%d optional fields closed under nesting, full, full minus one) "
                "for 10 client and 5 server kinds (a 69-node {meta} uses pairs only), plus 13 {ctrl} replies built by the real constructors of datamodel.go with the argument types of their call sites; non-trivial = non-zero id / malformed text / valid pair / non-empty shape" % (3 if thorough else 2),
        "per_op": dict(ops), "decode_classes": dict(deccls), "message_shapes": dict(kinds), "message_fields_compared": fields_compared,
        "exhaustive": False,
        "exhaustive_part": "U1: every 1-byte and 2-byte id, every text over the full alphabet up to the valid length, every pair of 1-byte ids%s"
                           % ("" if thorough else " (quick tier: reduced text depth, 26 pair ids)"),
        "model": [{"module": "CodecCheck", "cfg": c, "generated": r.generated, "distinct": r.distinct} for c, r in u1]
                 + [{"module": "MsgShapes", "shapes": nshapes}],
        "monitor_run": {"module": "Monitor_C20", "vectors": len(vectors)},
        "failing_signatures": [{"monitor": k[0], "site": k[1], "input_class": k[2], "vectors": n} for k, (n, _) in agg.items()],
        "informational_reverse_converters": {"note": "fields that do not survive pbCliSerialize->pbCliDeserialize / pbServSerialize->pbServDeserialize "
                                                     "(plugin and cluster direction; outside the statement of C20, not judged)",
                                             "fields": dict(sorted(rt.items()))},
    })
    ctx.assumptions += [
        "encoding/json, encoding/base64, encoding/base32 and google.golang.org/protobuf behave as their Go releases do (the as-built constants DEV_* of Codec.tla transcribe what was measured; zero divergences confirm it on every vector)",
        "the correspondence JSON field <-> protobuf field is the one written in spec/MsgShapes.tla (from server/datamodel.go tags and pbx/model.proto comments); the recorder refuses to run if a protobuf field of a covered message is unmapped",
        "field VALUES are representative (a few literals per type, ms-precision timestamps, 32-bit integers); the quantifier of C20 is over presence/absence of fields, values outside int32 or sub-millisecond times are not exercised",
        "the database form is the UidGenerator (XTEA) pair DecodeUid/EncodeInt64 with a fixed key plus ObjHeader.Id; SQL column round trips are the adapters' (C18 family), not exercised here",
    ]
    idx = [i for i in (0, 1800, len(vectors) // 2, len(vectors) - 1) if i < len(vectors)]
    return ctx.finish(level="model_checking", samples=[brief(vectors[i]) for i in idx])
