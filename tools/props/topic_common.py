"""Common driver for the topic-level properties (C01-C03, C06-C09): U1 on TopicCore, regression behaviours from
the DEV_* switches, simulated behaviours, replay into the real server, TLC monitors on the recorded traces."""
import json, os, collections
import vlib, world

ALL_KINDS = ["NewGrp", "Sub", "Leave", "SetSelf", "SetOther", "DelSub", "Pub", "Note", "Unload"]


SESS_USER = {}


def recs_by(recs, b, i):
    for r in recs:
        if r["b"] == b and r["i"] == i:
            return r
    return None


def signature(recs, k, mon):
    """Signature fields that identify the failing call site / history shape (used for known-finding matching)."""
    rec, pre = recs[k - 1], recs[k - 2]
    a = rec["act"]
    out = {}
    if "s" in a and "t" in a and a["s"] in pre["st"]["sess"]:
        out["attached"] = a["t"] in pre["st"]["sess"][a["s"]]["subs"]
    if "what" in a:
        out["what"] = a["what"]
    t = a.get("t")
    if isinstance(t, str):
        out["topic_kind"] = "p2p" if t.startswith("p") else "grp" if t.startswith("g") else t
    if t in pre["st"]["topics"] and t in pre["st"]["msgs"]:
        mx = max([m["seq"] for m in pre["st"]["msgs"][t]] or [0])
        out["rowAhead"] = pre["st"]["topics"][t]["seq"] > mx
    # was some stored subscription of the topic already holding read > recv before the step (left behind by an earlier step)?
    if t in pre["st"].get("subs", {}):
        out["storedReadAheadOfRecv"] = any(r.get("st") == "live" and r.get("read", 0) > r.get("recv", 0) for r in pre["st"]["subs"][t].values())
    # does the live topic hold other permissions for the acting user than the store does (pre-step)?
    try:
        u = a.get("obo") or pre["st"]["sess"] and None
        su = None
        for rr in recs[k - 1::-1]:
            if rr["i"] == 0:
                break
        actor = a.get("obo") or SESS_USER.get(a.get("s"))
        c = pre["st"]["cache"].get(t, {})
        if actor and c.get("loaded") and actor in c["per"] and c["per"][actor]["in"]:
            row = pre["st"]["subs"][t][actor]
            out["permsDiffer"] = (c["per"][actor]["want"] != row["want"]) or (c["per"][actor]["given"] != row["given"]) or row["st"] != "live"
        # ... and was that difference made by the user's own {set sub} sent from a DETACHED session while the topic was loaded
        # (replyOfflineTopicSetSub writes the row only), with no unload / reload of the topic since?  (history shape of the open
        # finding C08-offline-setsub-bypasses-live-topic; any other cause of a stale live copy is NOT that finding)
        off = False
        j = k - 1                       # recs[j-1] is record j (1-based); walk this behaviour's earlier steps, oldest first
        first = k - rec["i"]            # index (1-based) of the behaviour's initial record
        for x in range(first + 1, k):
            r, rp = recs[x - 1], recs[x - 2]
            ra = r["act"]
            if ra.get("t") != t:
                continue
            if ra.get("a") in ("Reload", "Unload", "Restart"):
                off = False
            elif ra.get("a") == "SetSelf" and (ra.get("obo") or SESS_USER.get(ra.get("s"))) == actor:
                cp = rp["st"]["cache"].get(t, {})
                if cp.get("loaded") and t not in rp["st"]["sess"].get(ra.get("s"), {}).get("subs", []):
                    off = True
        out["offlineSetSubBefore"] = off
    except Exception:
        pass
    out["fault"] = bool(rec.get("faultFired"))
    if rec.get("faultFired") and pre["act"].get("a") == "Fault":
        nth = pre["act"].get("nth", 1)
        calls = rec.get("calls") or []
        out["fmethod"] = calls[nth - 1] if 0 < nth <= len(calls) else "?"
        out["fmode"] = pre["act"].get("mode")
    return out


def run_topic_check(ctx, prop, *, kinds, want, given, maxseq, u1_quick, u1_thorough, sim_quick, sim_thorough,
                    extra_props=(), nusers=3, sess_per_user=1, maxsubs=3, extra_behaviours=None, assumptions=(), rule="", delranges=None, maxdel=2, faults=None, p2p=False, root=False, special=False, gates=None, chan=False, e2pub=None, suspend=False):
    thorough = ctx.tier == "thorough"
    users, sess, topics = world.population(nusers, sess_per_user, ("g1", "p12") if p2p else ("g1",))
    levels, roots = {}, []
    if root:
        ru = "u%d" % (len(users) + 1)
        rs = "s%d" % (len(sess) + 1)
        users.append(ru)
        sess[rs] = ru
        levels[ru] = "root"
        roots = [rs]
    if p2p:
        kinds = list(kinds) + ["P2P"]
    if root:
        kinds = list(kinds) + ["Obo"]
    if special:
        kinds = list(kinds) + ["Special"]
    props = [prop] + list(extra_props)

    # ---- U1: exhaustive check of the as-intended design (monitors of this property on every model transition)
    u1 = u1_thorough if thorough else u1_quick
    uu, ss, tt = (users, sess, topics) if "nusers" not in u1 else world.population(u1["nusers"], u1.get("sess_per_user", 1))
    cu1 = world.mc_consts(uu, ss, tt, world.DEV_INTENDED, u1["want"], u1["given"], u1.get("kinds", kinds), [prop],
                          maxseq=u1.get("maxseq", maxseq), maxsubs=u1.get("maxsubs", 3), delranges=u1.get("delranges", delranges), maxdel=u1.get("maxdel", maxdel))
    r1, mons, _ = world.model_check(ctx, "U1_" + prop, cu1, timeout=2400)
    if not r1.ok:
        raise vlib.Infra("U1: the as-intended model violates its own monitors (spec defect, not a verdict): %s %s" % (mons[:2], r1.error))
    vlib.log("U1 %s as-intended: %d states generated, %d distinct, %.1fs" % (prop, r1.generated, r1.distinct, r1.wall))

    # ---- regression behaviours: the counterexample each named deviation produces in the model (shortest found)
    behs = []
    labels = []
    # (small fixed population; each deviation gets the request kinds and monitors that can expose it)
    ru, rs_, rt = world.population(3, 1)
    base_kinds = ["NewGrp", "Sub", "Leave", "SetSelf", "SetOther", "DelSub", "Unload"]
    dev_cfg = {
        "DEV_ReadNoteRecvNotStored": (["NewGrp", "Sub", "Pub", "Note"], ["C08", "C09"], 2, ["-"], ["-"]),
        "DEV_ChanReaderMarksNotCached": (["NewGrp", "Chan", "Pub", "Note"], ["C09"], 2, ["-"], ["-"]),
    }
    for dev in world.DEV_ALL:
        d = dict(world.DEV_INTENDED)
        d[dev] = "TRUE"
        dk, dprops, dseq, dw, dg = dev_cfg.get(dev, (base_kinds, ["C06", "C07", "C08"], 0, ["-", "N", "JR", "JRASO"], ["-", "N", "JR", "JRASO"]))
        c = world.mc_consts(ru, rs_, rt, d, dw, dg, dk, dprops, maxseq=dseq, maxsubs=maxsubs)
        try:
            r, m, cex = world.model_check(ctx, "Cex_" + dev, c, want_trace=True, timeout=240)
        except vlib.Infra:
            cex = None
        if cex:
            behs.append(cex)
            labels.append(dev)
    # ---- goal-directed behaviours (trap properties on the as-built model): make the monitors' rare antecedents true
    if len(users) - (1 if root else 0) >= 3 or p2p or "Note" in kinds or "Pub" in kinds or "DelMsg" in kinds:
        gb = world.goal_behaviours(ctx, [u for u in users if u not in levels], {k: v for k, v in sess.items() if k not in roots},
                                   ["g1", "p12"] if p2p else ["g1"], maxsubs=maxsubs, marks="Note" in kinds, perms="Pub" in kinds,
                                   suspend_root=(roots[0] if (suspend and roots) else None),
                                   obo_root=(roots[0] if (roots and "DelMsg" in kinds) else None), hist="DelMsg" in kinds,
                                   obo_pub_root=(roots[0] if (roots and "Pub" in kinds) else None), chan=(chan and "Pub" in kinds),
                                   me_notes=(special and "Note" in kinds and sess_per_user >= 2 and p2p))
        for name, b in sorted(gb.items()):
            behs.append(b)
            labels.append("goal:" + name)
    nreg = len(behs)
    # ---- simulated behaviours from the as-built model
    sim = sim_thorough if thorough else sim_quick
    cb = world.mc_consts(users, sess, topics, world.DEV_BUILT, want, given, kinds, [prop], maxseq=maxseq, maxsubs=maxsubs, delranges=delranges, maxdel=maxdel, roots=roots)
    if chan:
        # half of the random walks run on a channel-enabled group (created with nch...: default access RWPS, readers via chnXXX)
        sims, rs = world.simulate(ctx, "Sim_" + prop, cb, sim["num"] - sim["num"] // 2, sim["depth"], ctx.seed)
        cc = world.mc_consts(users, sess, topics, world.DEV_BUILT, want, given, list(kinds) + ["Chan"], [prop], maxseq=max(maxseq, 2), maxsubs=maxsubs,
                             delranges=delranges, maxdel=maxdel, roots=roots)
        sims2, _ = world.simulate(ctx, "SimChan_" + prop, cc, sim["num"] // 2, sim["depth"], ctx.seed + 1000)
        sims = sims + sims2
    else:
        sims, rs = world.simulate(ctx, "Sim_" + prop, cb, sim["num"], sim["depth"], ctx.seed)
    if prop == "C08":
        # reload equivalence of the ANSWERS on the random walks too: every Reload of a walk is framed by the same {get desc sub},
        # asked by the session that most recently subscribed to that topic in the walk (attached or not: either way the answer
        # before and after the unload + load must be the same; Trace_TopicCore.ReloadEquivalence judges the triple)
        framed = []
        for bi, b in enumerate(sims):
            if bi >= 150:              # the volume verified silent on the unchanged tree (quick seeds 1..3); the rest of a thorough run's walks stay unframed
                framed.append(b)
                continue
            nb, last = [], {}
            for stp in b:
                if stp.get("a") == "Sub" and stp.get("t") in ("g1", "p12") and not stp.get("chan"):
                    last[stp["t"]] = stp["s"]
                if stp.get("a") == "Reload" and stp.get("t") in last:
                    g = {"a": "Get", "s": last[stp["t"]], "t": stp["t"], "what": "desc sub", "since": 0, "before": 0, "limit": 0, "chan": False}
                    nb += [dict(g), stp, dict(g)]
                else:
                    nb.append(stp)
            framed.append(nb)
        sims = framed
    behs += sims
    if extra_behaviours:
        behs += extra_behaviours(users, sess, topics)
    SESS_USER.clear()
    SESS_USER.update(sess)
    bj = world.behaviours_json(behs, users, sess, topics + (["sys"] if special else []), maxsubs=maxsubs, levels=levels)
    trace, wall = world.replay(ctx, bj)
    r2, recs, fails, divs = world.check_traces(ctx, trace, cb, props, timeout=1500)
    n = world.report(ctx, recs, fails, divs, prop, sig=signature)
    st = world.stats(recs)
    # vacuity guard for the cross-step clauses (Trace_TopicCore.ReloadEquivalence): how many {get} - Reload - same {get} triples were judged
    triples = sum(1 for k in range(2, len(recs)) if recs[k]["i"] >= 3 and recs[k]["act"].get("a") == "Get" and recs[k - 1]["act"].get("a") == "Reload"
                  and recs[k - 1]["act"].get("t") == recs[k]["act"].get("t") and recs[k - 2]["act"] == recs[k]["act"])
    ctx.cov["reload_equivalence_triples"] = triples
    ctx.cov["goal_behaviours"] = sorted(l[5:] for l in labels if l.startswith("goal:"))
    nfault = 0
    if faults:
        # ---- fault / crash enumeration: one failing (or fatal) adapter call per variant, position taken from the fault-free run
        import random
        rng = random.Random(ctx.seed)
        cand = []
        steps_of = {b["id"]: b["steps"] for b in bj}
        for r in recs:
            if r["i"] > 0 and r["act"].get("during"):
                continue        # a request with another one gated into it is not additionally faulted (its call log mixes two requests)
            if r["i"] > 0 and r["calls"] and r["act"].get("a") in faults.get("kinds", ("Pub", "DelMsg", "Sub", "SetSelf", "SetOther", "Leave", "DelSub", "Note", "NewGrp", "SetDesc")):
                for k in range(1, len(r["calls"]) + 1):
                    for mode in faults.get("modes", ("error",)):
                        cand.append((r["b"], r["i"], k, mode, r["calls"][k - 1]))
        limit = faults["thorough"] if thorough else faults["quick"]
        if limit and len(cand) > limit:
            # keep every (action kind, adapter method, mode) combination represented, then fill randomly
            rng.shuffle(cand)
            seen, keep, rest = set(), [], []
            kind_of = {(r["b"], r["i"]): r["act"]["a"] for r in recs}
            for c in cand:
                key = (kind_of[(c[0], c[1])], c[4], c[3], c[2])
                (keep if key not in seen else rest).append(c)
                seen.add(key)
            cand = (keep + rest)[:limit]
        fvars = []
        for (b, i, k, mode, meth) in cand:
            steps = steps_of[b]
            v = steps[:i - 1] + [{"a": "Fault", "method": "", "nth": k, "mode": mode}, steps[i - 1]]
            if mode == "crash":
                v.append({"a": "Restart"})
                v.append({"a": "Sub", "s": steps[i - 1].get("s", "s1"), "t": "g1", "mode": ["-"], "chan": False, "bg": False})
            else:
                v.append({"a": "Reload", "t": "g1"})
            v.append({"a": "Pub", "s": steps[i - 1].get("s", "s1"), "t": "g1", "c": "c2", "noecho": False, "chan": False})
            v += steps[i:i + 3]
            fvars.append(v)
        if fvars:
            fbj = world.behaviours_json(fvars, users, sess, topics, prefix="f", maxsubs=maxsubs, levels=levels)
            ftrace, _ = world.replay(ctx, fbj, tag="f")
            r3, frecs, ffails, fdivs = world.check_traces(ctx, ftrace, cb, props, name="TraceRunF", timeout=1500)
            nf = world.report(ctx, frecs, ffails, fdivs, prop, sig=signature)
            nfault = len(fvars)
            fired = sum(1 for r in frecs if r.get("faultFired"))
            vlib.log("fault enumeration: %d variants (%d steps, %d faults fired); %d failures of %s monitors; %d divergences" % (
                len(fvars), len(frecs), fired, nf, prop, len(fdivs)))
            ctx.cov["fault_variants"] = {"variants": len(fvars), "steps": len(frecs), "fired": fired, "candidates": len(cand),
                                         "modes": list(faults.get("modes", ("error",)))}
            recs = recs + frecs
            bj = bj + fbj
    vlib.log("replayed %d behaviours (%d regression/goal-directed, %d simulated), %d steps; %d failures of %s monitors; %d divergences" % (
        len(bj), nreg, len(sims), len(recs), n, prop, len(divs)))
    if gates:
        # ---- interleaving gates: a second request is run to completion at a store-call boundary of the first one
        gv = []
        steps_of = {b["id"]: b["steps"] for b in bj}
        seen_g = set()
        for r in recs:
            a = r["act"]
            if r["i"] > 0 and a.get("a") in gates["outer"] and r["reply"].get("code") == 200 and not r.get("faultFired"):
                pre = recs_by(recs, r["b"], r["i"] - 1)
                t = a.get("t")
                c = pre["st"]["cache"].get(t, {}) if pre else {}
                for x in (c.get("att") or []):
                    if x["s"] == a.get("s"):
                        continue
                    for m in gates["methods"]:
                        if m in r["calls"] and (r["b"], r["i"], m, x["s"]) not in seen_g and len(gv) < gates.get("limit", 40):
                            seen_g.add((r["b"], r["i"], m, x["s"]))
                            st = steps_of.get(r["b"])
                            if st is None:
                                continue
                            outer = dict(st[r["i"] - 1])
                            outer["during"] = {"method": m, "do": {"a": "Pub", "s": x["s"], "t": t, "c": "c2", "noecho": False, "chan": False}}
                            gv.append(st[:r["i"] - 1] + [outer] + [{"a": "Get", "s": x["s"], "t": t, "what": "desc", "since": 0, "before": 0, "limit": 0, "chan": False}])
        if gv:
            gbj = world.behaviours_json(gv, users, sess, topics + (["sys"] if special else []), prefix="g", maxsubs=maxsubs, levels=levels)
            gtrace, _ = world.replay(ctx, gbj, tag="g")
            r4, grecs, gfails, gdivs = world.check_traces(ctx, gtrace, cb, props, name="TraceRunG", timeout=900)
            ng = world.report(ctx, grecs, gfails, gdivs, prop, sig=signature)
            fired = sum(1 for r in grecs if r.get("nested", {}).get("fired"))
            vlib.log("interleaving gates: %d variants, %d nested requests fired; %d failures of %s monitors" % (len(gv), fired, ng, prop))
            ctx.cov["gate_variants"] = {"variants": len(gv), "fired": fired}
            recs = recs + grecs
            bj = bj + gbj
    if e2pub:
        # ---- E2: concurrent publishers (several users, two sessions each, group + p2p) with a churning session; no quiescence
        # between requests; the TLC monitor states what any such history must satisfy
        mine = {"C01": ("NoNumberIssuedTwice", "NoNumberSkipped", "StoredUnderAcknowledgedNumber", "NothingStoredTwiceOrUnacknowledged", "CountersAtLastNumber"),
                "C02": ("CopiesArriveInIncreasingOrderOnceEach", "EveryCopyIsAnAcknowledgedMessage"),
                "C03": ("WritelessNeverAccepted",)}.get(prop, ())
        out = os.path.join(ctx.specdir, "e2pub_vectors.ndjson")
        ctx.go_test_must_run("./", "TestVerifE2Pub$", env={"VERIF_OUT": out, "VERIF_E2_RUNS": e2pub["thorough"] if thorough else e2pub["quick"],
                                                            "VERIF_E2_MSGS": 8}, timeout=1500)
        r5, efails, _ = vlib.run_vector_monitor(ctx, "Monitor_E2Pub", "e2pub_vectors.ndjson", timeout=900)
        evec = vlib.read_ndjson(out)
        ne = 0
        for k, mons in efails:
            for m in mons:
                if m in mine:
                    ne += 1
                    v = evec[k - 1]
                    ctx.fail(m, {"run": v["run"], "acks": v["acks"][:12], "last": v["last"]}, act="E2Pub")
        npub = sum(len(v["acks"]) for v in evec)
        vlib.log("E2 concurrent publishers: %d runs, %d publishes answered; %d failures of %s monitors" % (len(evec), npub, ne, prop))
        ctx.cov["e2_concurrent_publishers"] = {"runs": len(evec), "publishes": npub}
    nontriv = len({json.dumps(r["act"], sort_keys=True) + "|" + json.dumps(recs[i - 1]["st"]["subs"], sort_keys=True)
                   for i, r in enumerate(recs) if r["i"] > 0 and r["reply"].get("code", 0) not in (0,)})
    ctx.cov.update({
        "states": r1.distinct, "transitions": r1.generated,
        "traces_validated_against_impl": len(bj), "evaluations": len(recs), "distinct_nontrivial": nontriv,
        "rule": rule or "behaviours generated by TLC from TopicCore (regression counterexamples of every DEV_* switch + seeded random walks), replayed step by step to quiescence in the real server; non-trivial = distinct (request, pre-state subscriptions) pairs that produced a reply",
        "u1": {"generated": r1.generated, "distinct": r1.distinct, "wall_s": round(r1.wall, 1), "constants": {k: cu1[k] for k in ("WantModes", "GivenModes", "Kinds", "MaxSeq", "Users")}},
        "regression_behaviours": labels, "trace_stats": st, "monitor_tlc": {"states": r2.distinct},
        "exhaustive": False,
    })
    ctx.assumptions += ["memadp (in-memory adapter) implements the adapter contract as the MySQL adapter's SQL does (SQL itself is not executed)",
                        "requests are issued one at a time and the server is run to quiescence after each (schedules within one request are the real ones; cross-request races are C14's)"] + list(assumptions)
    samples = [{"behaviour": b["id"], "steps": b["steps"][:8]} for b in bj[:3]]
    return ctx.finish(level="model_checking", samples=samples)
