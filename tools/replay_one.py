#!/usr/bin/env python3
"""Debug aid: re-run the behaviour of failure #idx from a replay file against the real server and print the last step compactly.
usage: replay_one.py <replays/Cxx_...json> [idx] [nusers] [sess_per_user]"""
import sys, json, os
sys.path.insert(0, os.path.dirname(os.path.abspath(__file__)))
import vlib, world
f = json.load(open(sys.argv[1]))
idx = int(sys.argv[2]) if len(sys.argv) > 2 else 0
nu = int(sys.argv[3]) if len(sys.argv) > 3 else 3
spu = int(sys.argv[4]) if len(sys.argv) > 4 else 1
d = f["failures"][idx]["detail"]
print("monitor:", f["failures"][idx]["monitor"])
steps = d["prefix"]
if not steps or steps[-1] != d["act"]:
    steps = steps + [d["act"]]
ctx = vlib.Ctx(f["property"], "quick", 1)
root = len(sys.argv) > 5 and sys.argv[5] == "root"
tnames = tuple(sys.argv[6].split(",")) if len(sys.argv) > 6 else ("g1", "p12")
users, sess, topics = world.population(nu, spu, tnames)
levels = {}
if root:
    ru, rs = "u%d" % (len(users) + 1), "s%d" % (len(sess) + 1)
    users.append(ru); sess[rs] = ru; levels[ru] = "root"
bj = world.behaviours_json([steps], users, sess, topics + ["sys"], levels=levels)
tr, _ = world.replay(ctx, bj)
recs = vlib.read_ndjson(tr)
def m(x): return "".join(x) if isinstance(x, list) and all(isinstance(y, str) for y in x) else x
for r in recs[1:]:
    a = {k: m(v) for k, v in r["act"].items() if not (k == "chan" and v is False)}
    print(r["i"], a, "->", r["reply"].get("code"))
last, pre = recs[-1], recs[-2]
t = last["act"].get("t", "g1")
for nm, st in (("pre", pre["st"]), ("post", last["st"])):
    c = st["cache"][t]
    print(nm, "topic", {k: m(v) for k, v in st["topics"][t].items() if k in ("seq", "delId", "owner", "auth")})
    print("   subs", {u: (x["st"], m(x["want"]), m(x["given"]), x["read"], x["recv"]) for u, x in st["subs"][t].items()})
    if c["loaded"]:
        print("   cache last", c["last"], "owner", c["owner"], "att", [(y["s"], y["u"]) for y in c["att"]],
              {u: (m(x["want"]), m(x["given"]), x["read"], x["recv"], x["online"]) for u, x in c["per"].items() if x["in"]})
    else:
        print("   cache unloaded")
print("push", last["push"])
for s, fr in last["frames"].items():
    for x in fr:
        print("  frame", s, {k: v for k, v in x.items() if k in ("k", "code", "seq", "from", "what", "src", "topic", "content", "id")})
