#!/bin/bash
# usage: tools/run_tiers.sh <tier> <seed> <props...> : runs checks serially, prints one summary line each
V=$(cd "$(dirname "$0")/.." && pwd); cd $V
tier=$1; seed=$2; shift 2
for p in "$@"; do
  s=$(date +%s)
  VERIF_SEED=$seed python3 tools/check.py $p --tier $tier > /tmp/tier_${tier}_${seed}_$p.log 2>&1; rc=$?
  e=$(( $(date +%s) - s ))
  echo "$p tier=$tier seed=$seed rc=$rc ${e}s $(grep -c '^KNOWN-FINDING' /tmp/tier_${tier}_${seed}_$p.log) known $(grep -c '^DIVERGENCE' /tmp/tier_${tier}_${seed}_$p.log) div-lines :: $(grep -E '^INFRA|^VIOLATION|U1 .* as-intended' /tmp/tier_${tier}_${seed}_$p.log | head -2 | tr '\n' ' ' | cut -c1-200)"
done
