#!/bin/bash
# usage: tools/seed_batch.sh <tier> <sid:prop> ...   (runs from wherever this copy of /verif lives, e.g. a `vp run` snapshot)
V=$(cd "$(dirname "$0")/.." && pwd)
tier=$1; shift
for pair in "$@"; do
  sid=${pair%%:*}; prop=${pair##*:}
  $V/tools/seed_run.sh $sid $prop $tier
done
