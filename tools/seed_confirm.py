#!/usr/bin/env python3
"""Confirm a seeded change in a scratch worktree: usage seed_confirm.py <seed id, e.g. C05_a> [src dir]
Copies <src dir> (default /tmp/wt_<Cxx>/_seed/<v>) to /verif/seeded/<id>/ and records what was run in meta.json."""
import json, os, shutil, subprocess, sys, re
sid = sys.argv[1]
prop, var = sid.split("_")
src = sys.argv[2] if len(sys.argv) > 2 else "/tmp/wt_%s/_seed/%s" % (prop, var)
dst = "/verif/seeded/%s" % sid
if os.path.abspath(src) != dst:
    if not os.path.isdir(src):
        raise SystemExit("source directory %s does not exist" % src)
    if os.path.exists(dst):
        shutil.rmtree(dst)
    shutil.copytree(src, dst)
wt = "/tmp/sc_%s" % sid
env = dict(os.environ, GOFLAGS="-mod=mod", GOPROXY="off", GOSUMDB="off", GOTOOLCHAIN="local")
def sh(cmd, cwd=None, check=False):
    p = subprocess.run(cmd, shell=True, cwd=cwd, env=env, stdout=subprocess.PIPE, stderr=subprocess.STDOUT, text=True)
    if check and p.returncode != 0:
        print(p.stdout[-3000:]); raise SystemExit("failed: " + cmd)
    return p.returncode, p.stdout
sh("git -C /repo worktree remove --force %s" % wt)
sh("git -C /repo worktree add --detach %s HEAD" % wt, check=True)
res = {}
try:
    patch = os.path.join(dst, "patch.diff")
    rc, out = sh("git apply %s" % patch, cwd=wt)
    if rc != 0:
        rc, out = sh("patch -p1 -F3 --no-backup-if-mismatch < %s" % patch, cwd=wt)
        res["applied_with"] = "patch -p1 -F3"
        if rc != 0:
            print(out); raise SystemExit("patch does not apply to current /repo HEAD")
        # regenerate the patch against the current tree so the checks can apply it to /repo
        rc, newdiff = sh("git diff", cwd=wt)
        shutil.copy(patch, patch + ".orig_pinned")
        open(patch, "w").write(newdiff)
    else:
        res["applied_with"] = "git apply"
    tags = "-tags mysql" if "db/mysql" in open(patch).read() else ""
    rc, out = sh("go build %s ./... " % tags, cwd=wt + "/server"); res["build_ok"] = rc == 0
    rc, out = sh("go test -vet=off -count=1 . ./db/common ./drafty ./ringhash 2>&1 | tail -8", cwd=wt + "/server")
    res["baseline_pass_with_patch"] = ("FAIL" not in out) and out.count("ok ") >= 4
    # demo placement: from demo_cmd.txt we only need the go test command; demo files *_test.go are copied next to where demo_cmd says
    demo_cmd = open(os.path.join(dst, "demo_cmd.txt")).read()
    demos = [f for f in os.listdir(dst) if f.endswith("_test.go") or (f.endswith(".go") and f != "patch.diff")]
    placed = []
    for f in demos:
        m = re.search(r"(server[\w/\.]*?)/?%s" % re.escape(f), demo_cmd)
        d = m.group(1) if m else "server"
        if d.endswith(f): d = os.path.dirname(d)
        tgt = os.path.join(wt, d, f)
        os.makedirs(os.path.dirname(tgt), exist_ok=True)
        shutil.copy(os.path.join(dst, f), tgt); placed.append(os.path.join(d, f))
    res["demo_files"] = placed
    m = re.search(r"go test[^\n`]*", demo_cmd)
    gocmd = m.group(0).rstrip(" )") if m else None
    res["demo_cmd"] = gocmd
    pk = "server"
    rc1, out1 = sh(gocmd, cwd=wt + "/server")
    if "no Go files" in out1 or "cannot find package" in out1 or "directory not found" in out1 or "outside main module" in out1:
        rc1, out1 = sh(gocmd, cwd=wt); pk = "."
    res["demo_fails_with_patch"] = rc1 != 0 and ("FAIL" in out1)
    res["demo_out_with_patch_tail"] = out1[-600:]
    sh("git checkout -- .", cwd=wt)
    rc2, out2 = sh(gocmd, cwd=wt + "/server" if pk == "server" else wt)
    res["demo_passes_without_patch"] = rc2 == 0
    if rc2 != 0: res["demo_out_without_patch_tail"] = out2[-600:]
finally:
    sh("git -C /repo worktree remove --force %s" % wt)
    sh("git -C /repo worktree prune")
meta_p = os.path.join(dst, "meta.json")
meta = json.load(open(meta_p)) if os.path.exists(meta_p) else {}
meta["confirmed_by_main"] = res
meta["confirmed_against"] = subprocess.run("git -C /repo rev-parse --short HEAD", shell=True, stdout=subprocess.PIPE, text=True).stdout.strip()
json.dump(meta, open(meta_p, "w"), indent=1)
ok = res.get("build_ok") and res.get("baseline_pass_with_patch") and res.get("demo_fails_with_patch") and res.get("demo_passes_without_patch")
print(sid, "CONFIRMED" if ok else "NOT-CONFIRMED", json.dumps({k: v for k, v in res.items() if "tail" not in k}))
if not ok: print(res.get("demo_out_with_patch_tail", ""), res.get("demo_out_without_patch_tail", ""))
