#!/bin/bash
# usage: tools/seed_run.sh <seed id> <property> [tier]   -- applies seeded/<id>/patch.diff to /repo, runs the check, reverts.
set -u
sid=$1; prop=$2; tier=${3:-quick}
cd /repo || exit 2
if ! git diff --quiet; then echo "/repo has uncommitted changes; refusing"; exit 2; fi
git apply /verif/seeded/$sid/patch.diff || { echo "patch does not apply"; exit 2; }
cd /verif
python3 tools/check.py $prop --tier $tier > /tmp/seedrun_${sid}_${prop}.log 2>&1
rc=$?
git -C /repo checkout -- .
echo "seed=$sid prop=$prop tier=$tier rc=$rc  $(grep -c '^VIOLATION' /tmp/seedrun_${sid}_${prop}.log) violation line(s)"
grep -E "^VIOLATION|monitor .* failed|INFRA|DIVERGENCE" /tmp/seedrun_${sid}_${prop}.log | head -${SEED_LINES:-6}
exit $rc
