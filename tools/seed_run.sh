#!/bin/bash
# usage: tools/seed_run.sh <seed id> <property> [tier]
# Applies seeded/<id>/patch.diff to a scratch worktree of /repo's HEAD (so concurrent work on /repo is not disturbed),
# runs the check against it (VERIF_REPO), removes the worktree. With SEED_INPLACE=1 it applies to /repo itself and reverts.
set -u
V=$(cd "$(dirname "$0")/.." && pwd)
sid=$1; prop=$2; tier=${3:-quick}
log=/tmp/seedrun_${sid}_${prop}.log
if [ "${SEED_INPLACE:-0}" = "1" ]; then
  cd /repo || exit 2
  git diff --quiet || { echo "/repo has uncommitted changes; refusing"; exit 2; }
  (git apply $V/seeded/$sid/patch.diff || patch -p1 -F3 -s < $V/seeded/$sid/patch.diff) || { echo "patch does not apply"; exit 2; }
  (cd $V && python3 tools/check.py $prop --tier $tier > $log 2>&1); rc=$?
  git -C /repo checkout -- .
else
  wt=/tmp/sr_${sid}_$$
  git -C /repo worktree add --detach $wt HEAD >/dev/null 2>&1 || exit 2
  (cd $wt && (git apply $V/seeded/$sid/patch.diff 2>/dev/null || patch -p1 -F3 -s < $V/seeded/$sid/patch.diff)) || { echo "patch does not apply"; git -C /repo worktree remove --force $wt; exit 2; }
  (cd $V && VERIF_REPO=$wt python3 tools/check.py $prop --tier $tier > $log 2>&1); rc=$?
  git -C /repo worktree remove --force $wt
fi
echo "seed=$sid prop=$prop tier=$tier rc=$rc  $(grep -c '^VIOLATION' $log) violation line(s)"
grep -E "^VIOLATION|monitor .* failed|INFRA|DIVERGENCE" $log | cut -c1-330 | head -${SEED_LINES:-4}
exit $rc
