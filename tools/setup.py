#!/usr/bin/env python3
"""setup_cmd: offline. Type-checks every TLA+ module with SANY and warms the Go build cache for the overlay harness."""
import os, subprocess, sys, glob, tempfile, shutil
sys.path.insert(0, os.path.dirname(os.path.abspath(__file__)))
import vlib

def main():
    rc = 0
    tmp = tempfile.mkdtemp(prefix="verif_setup_")
    try:
        sd = os.path.join(tmp, "spec"); shutil.copytree(vlib.SPEC, sd)
        for f in sorted(glob.glob(os.path.join(sd, "*.tla"))):
            p = subprocess.run(["timeout", "120", "tla-sany", os.path.basename(f)], cwd=sd, stdout=subprocess.PIPE, stderr=subprocess.STDOUT, text=True)
            bad = p.returncode != 0 or "*** Errors" in p.stdout or "Fatal errors" in p.stdout or "Could not find module" in p.stdout
            print("sany %-28s %s" % (os.path.basename(f), "FAIL" if bad else "ok"))
            if bad:
                print(p.stdout[-2000:]); rc = 1
        ctx = vlib.Ctx("setup", "quick", 1)
        pk = [p for p in ["./", "./store/types/", "./ringhash/"] ]
        for tags in ["verif", "verif mysql"]:
            code, out, wall = ctx.go_test(" ".join(pk).split()[0], "^$", tags=tags, extra=pk[1:])
            print("go build (tags=%s): rc=%d %.1fs" % (tags, code, wall))
            if code != 0:
                print(out[-3000:]); rc = 1
    finally:
        shutil.rmtree(tmp, ignore_errors=True)
    sys.exit(rc)

if __name__ == "__main__":
    main()
