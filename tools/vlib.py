"""Shared machinery for the /verif checks: TLC runner, Go overlay runner, evidence, verdicts.

Python 3 standard library only.  Every check is `python3 tools/check.py Cxx --tier quick|thorough`.
Exit codes: 0 = property held on everything explored (KNOWN-FINDING lines allowed),
            1 = VIOLATION line printed, 2 = infrastructure failure / inconclusive (never a violation).
"""
import json, os, re, shutil, subprocess, sys, tempfile, time, atexit, hashlib

VERIF = os.path.dirname(os.path.dirname(os.path.abspath(__file__)))
REPO = os.environ.get("VERIF_REPO", "/repo")
SPEC = os.path.join(VERIF, "spec")
HARNESS = os.path.join(VERIF, "harness")
# evidence/<id>.json describes what the check covered on /repo's tree; a run against another tree (VERIF_REPO = a scratch
# worktree with a seeded change) keeps its evidence next to its replays instead of overwriting it
EVID = os.path.join(VERIF, "evidence") if REPO == "/repo" else os.path.join(VERIF, "replays", "evidence_other_tree")
REPLAYS = os.path.join(VERIF, "replays")
NCPU = os.cpu_count() or 4

GOENV = {"GOFLAGS": "-mod=mod", "GOPROXY": "off", "GOSUMDB": "off", "GOTOOLCHAIN": "local"}


class Infra(Exception):
    """Infrastructure failure: exit 2, never a violation."""


def log(*a):
    print(*a, flush=True)


class TLCResult:
    def __init__(self, rc, out, wall):
        self.rc, self.out, self.wall = rc, out, wall
        self.generated = self.distinct = 0
        m = None
        for m in re.finditer(r"(\d+) states generated, (\d+) distinct states found", out):
            pass
        if m:
            self.generated, self.distinct = int(m.group(1)), int(m.group(2))
        self.violated_invariants = re.findall(r"Invariant (\S+) is violated", out)
        self.violated_props = re.findall(r"(?:Temporal property|Action property) (\S+) (?:was|is) violated", out)
        self.deadlock = "Deadlock reached" in out
        self.assume_failed = "Assumption" in out and "is false" in out
        self.ok = (rc == 0 and "Model checking completed. No error has been found" in out) or \
                  (rc == 0 and "Finished in" in out and not self.violated_invariants and "Error:" not in out)
        self.error = None
        if not self.ok and not self.violated_invariants and not self.violated_props and not self.deadlock:
            em = re.search(r"Error: (.*)", out)
            self.error = em.group(1) if em else "tlc rc=%d" % rc

    def coverage_zero(self):
        """Names/locations of actions or sub-expressions with zero count under -coverage."""
        return re.findall(r"<(\w+) line (\d+), col \d+ to line \d+, col \d+ of module (\w+)>: 0:0", self.out)

    def action_counts(self):
        res = {}
        for m in re.finditer(r"<(\w+) line \d+, col \d+ to line \d+, col \d+ of module \w+>: (\d+):(\d+)", self.out):
            res[m.group(1)] = res.get(m.group(1), 0) + int(m.group(3))
        return res


class Ctx:
    def __init__(self, prop, tier, seed):
        self.prop, self.tier, self.seed = prop, tier, seed
        self.t0 = time.time()
        self.scratch = tempfile.mkdtemp(prefix="verif_%s_" % prop)
        if not os.environ.get("VERIF_KEEP"):     # debug aid: VERIF_KEEP=1 leaves the scratch directory (specs, vectors) in place
            atexit.register(lambda: shutil.rmtree(self.scratch, ignore_errors=True))
        self.specdir = os.path.join(self.scratch, "spec")
        shutil.copytree(SPEC, self.specdir)
        self.failures = []       # monitor failures on REAL traces: dicts
        self.known_seen = []
        self.divergences = []
        self.cov = {}            # evidence coverage keys
        self.assumptions = []
        self.known = load_known()
        self._overlay = None

    # ---------------------------------------------------------------- TLC
    def tlc(self, module, cfg=None, workers=None, simulate=None, depth=None, timeout=600,
            coverage=False, extra=(), deadlock=True, cwd=None, env=None, dfs=False, seed=None):
        cwd = cwd or self.specdir
        cfg = cfg or (module + ".cfg")
        meta = tempfile.mkdtemp(prefix="meta_", dir=self.scratch)
        cmd = ["timeout", str(timeout), "tlc", "-metadir", meta, "-config", cfg]
        cmd += ["-workers", str(workers or NCPU)]
        if simulate:
            cmd += ["-simulate", simulate]
            if depth:
                cmd += ["-depth", str(depth)]
        if seed is not None:
            cmd += ["-seed", str(seed)]
        if coverage:
            cmd += ["-coverage", "1"]
        if not deadlock:
            cmd += ["-deadlock"]
        cmd += list(extra) + [module + ".tla"]
        e = dict(os.environ)
        jopts = "-Xss512m"
        if dfs:
            jopts += " -Dtlc2.tool.queue.IStateQueue=StateDeque"
        e["JAVA_TOOL_OPTIONS"] = (e.get("JAVA_TOOL_OPTIONS", "") + " " + jopts).strip()
        if env:
            e.update(env)
        t = time.time()
        p = subprocess.run(cmd, cwd=cwd, env=e, stdout=subprocess.PIPE, stderr=subprocess.STDOUT, text=True)
        shutil.rmtree(meta, ignore_errors=True)
        r = TLCResult(p.returncode, p.stdout, time.time() - t)
        if p.returncode == 124:
            raise Infra("TLC timeout after %ss on %s/%s" % (timeout, module, cfg))
        if "OutOfMemoryError" in r.out or "StackOverflowError" in r.out:
            raise Infra("TLC resource failure on %s: %s" % (module, r.out[-400:]))
        return r

    def tlc_must_pass(self, module, cfg=None, **kw):
        r = self.tlc(module, cfg, **kw)
        if not r.ok:
            sys.stdout.write(r.out[-6000:])
            raise Infra("TLC model check of %s/%s failed on the MODEL (not a verdict about the code): %s" %
                        (module, cfg or module + ".cfg", r.error or r.violated_invariants or r.violated_props or "deadlock"))
        return r

    # ---------------------------------------------------------------- Go
    def overlay(self):
        if self._overlay:
            return self._overlay
        rep = {}
        for root, _, files in os.walk(HARNESS):
            for f in files:
                if f.endswith(".go") or f.endswith(".json") or f.endswith(".txt"):
                    # files named zz_verif_cNN_* belong to one property: only that property's check compiles them,
                    # so a harness file under construction for one property cannot break another property's build.
                    m = re.match(r"zz_verif_(c\d\d)[_.]", f)
                    if m and self.prop.lower() not in (m.group(1), "setup") and m.group(1) not in getattr(self, "also", ()):
                        continue
                    src = os.path.join(root, f)
                    rel = os.path.relpath(src, HARNESS)
                    rep[os.path.join(REPO, rel)] = src
        p = os.path.join(self.scratch, "overlay.json")
        with open(p, "w") as fh:
            json.dump({"Replace": rep}, fh)
        self._overlay = p
        return p

    def go_test(self, pkg, run, env=None, tags="verif", timeout=900, race=False, extra=(), cwd=None):
        cmd = ["go", "test", "-vet=off", "-count=1", "-overlay", self.overlay(), "-tags", tags,
               "-run", run, "-timeout", "%ds" % timeout]
        if race:
            cmd.append("-race")
        cmd += list(extra) + [pkg]
        e = dict(os.environ)
        e.update(GOENV)
        e["VERIF_SEED"] = str(self.seed)
        e["VERIF_TIER"] = self.tier
        if env:
            e.update({k: str(v) for k, v in env.items()})
        t = time.time()
        p = subprocess.run(cmd, cwd=cwd or os.path.join(REPO, "server"), env=e,
                           stdout=subprocess.PIPE, stderr=subprocess.STDOUT, text=True)
        return p.returncode, p.stdout, time.time() - t

    def go_test_must_run(self, *a, **kw):
        rc, out, wall = self.go_test(*a, **kw)
        if rc != 0:
            sys.stdout.write(out[-8000:])
            raise Infra("harness go test failed (rc=%d) — build error or harness assertion, not a verdict" % rc)
        return out, wall

    # ---------------------------------------------------------------- verdicts
    def fail(self, monitor, detail, **sig):
        """Record a monitor failure observed on a REAL trace / real output."""
        f = {"property": self.prop, "monitor": monitor, "detail": detail}
        f.update(sig)
        self.failures.append(f)

    def finish(self, level="model_checking", samples=None, explanation=None):
        unknown = []
        seen_known = {}
        for f in self.failures:
            k = match_known(self.known, f)
            if k is None:
                unknown.append(f)
            else:
                seen_known.setdefault(k["id"], (k, 0))
                seen_known[k["id"]] = (k, seen_known[k["id"]][1] + 1)
        for kid, (k, n) in sorted(seen_known.items()):
            log("KNOWN-FINDING: property=%s %s [%s, %d occurrence(s) this run]" % (self.prop, k["summary"], kid, n))
        rc = 0
        replay = None
        if unknown:
            os.makedirs(REPLAYS, exist_ok=True)
            replay = os.path.join(REPLAYS, "%s_%s_%d.json" % (self.prop, self.tier, self.seed))
            with open(replay, "w") as fh:
                json.dump({"property": self.prop, "tier": self.tier, "seed": self.seed,
                           "failures": unknown[:200]}, fh, indent=1, default=str)
            for f in unknown[:5]:
                log("  monitor %s failed: %s" % (f["monitor"], json.dumps(f["detail"], default=str)[:400]))
            log("VIOLATION property=%s replay=%s" % (self.prop, replay))
            rc = 1
        if self.divergences:
            os.makedirs(REPLAYS, exist_ok=True)
            with open(os.path.join(REPLAYS, "%s_%s_%d_divergences.json" % (self.prop, self.tier, self.seed)), "w") as fh:
                json.dump({"property": self.prop, "failures": [{"monitor": "DIVERGENCE", "detail": d} for d in self.divergences[:100]]}, fh, indent=1, default=str)
        for d in self.divergences[:3]:
            log("DIVERGENCE (model vs code, not a verdict): %s" % json.dumps(d, default=str)[:300])
        cov = dict(self.cov)
        if samples is not None:
            cov["samples"] = samples
        if explanation:
            cov["explanation"] = explanation
        cov["divergences"] = len(self.divergences)
        cov["known_findings_seen"] = sorted(seen_known)
        ev = {"property_id": self.prop, "tier": self.tier, "seed": self.seed, "level": level,
              "coverage": cov, "assumptions": self.assumptions,
              "wall_s": round(time.time() - self.t0, 2), "violations": len(unknown)}
        os.makedirs(EVID, exist_ok=True)
        with open(os.path.join(EVID, "%s.json" % self.prop), "w") as fh:
            json.dump(ev, fh, indent=1, default=str)
        log("%s %s seed=%d: %s in %.1fs (failures=%d known=%d divergences=%d)" % (
            self.prop, self.tier, self.seed, "VIOLATION" if rc else "ok", time.time() - self.t0,
            len(unknown), len(self.failures) - len(unknown), len(self.divergences)))
        return rc


def load_known():
    p = os.path.join(VERIF, "known_findings.json")
    if not os.path.exists(p):
        return []
    with open(p) as fh:
        return [k for k in json.load(fh).get("findings", []) if k.get("status") == "open"]


def match_known(known, f):
    for k in known:
        if k["property"] != f["property"]:
            continue
        ok = True
        for key, pat in k["match"].items():
            v = f.get(key)
            if v is None:
                ok = False
                break
            if isinstance(pat, dict) and "regex" in pat:
                if not re.fullmatch(pat["regex"], str(v), re.S):
                    ok = False
                    break
            elif v != pat:
                ok = False
                break
        if ok:
            return k
    return None


def read_ndjson(path):
    out = []
    with open(path) as fh:
        for line in fh:
            line = line.strip()
            if line:
                out.append(json.loads(line))
    return out


def write_ndjson(path, rows):
    with open(path, "w") as fh:
        for r in rows:
            fh.write(json.dumps(r, separators=(",", ":")) + "\n")


# ---------------------------------------------------------------------- vector monitors
def parse_tla_strset(txt):
    return re.findall(r'"((?:[^"\\]|\\.)*)"', txt)


def parse_dump(path, fields=("cur", "bad", "div")):
    """Parses a TLC -dump file of small states; yields dicts field -> raw text."""
    cur = {}
    with open(path) as fh:
        for line in fh:
            if line.startswith("State "):
                if cur:
                    yield cur
                cur = {}
            elif line.startswith("/\\ "):
                k, _, v = line[3:].partition(" = ")
                cur[k.strip()] = v.strip()
            elif cur and line.strip():
                # continuation of a long value
                last = list(cur)[-1]
                cur[last] += " " + line.strip()
    if cur:
        yield cur


def run_vector_monitor(ctx, module, vectors_file, cfg=None, timeout=1200, workers=None):
    """Runs spec/<module>.tla (16-ary tree over the ndjson vectors in ctx.specdir) and returns
    (TLCResult, failures, divergences) where failures = [(index, [monitor names])]."""
    dump = os.path.join(ctx.scratch, module + "_st")
    r = ctx.tlc(module, cfg, workers=workers, timeout=timeout, extra=["-dump", dump])
    if not r.ok:
        sys.stdout.write(r.out[-5000:])
        raise Infra("monitor run %s failed to evaluate (spec/trace format problem, not a verdict): %s" % (module, r.error))
    fails, divs = [], []
    n = 0
    for st in parse_dump(dump + ".dump"):
        n += 1
        if st.get("bad", "{}") != "{}":
            fails.append((int(st["cur"]), parse_tla_strset(st["bad"])))
        if st.get("div", "{}") != "{}":
            divs.append((int(st["cur"]), parse_tla_strset(st["div"])))
    os.remove(dump + ".dump")
    nvec = sum(1 for _ in open(os.path.join(ctx.specdir, vectors_file)))
    if n != nvec + 1:
        raise Infra("monitor %s visited %d states for %d vectors" % (module, n, nvec))
    return r, sorted(fails), sorted(divs)


# ---------------------------------------------------------------------- TLA+ instance generation
def write_instance(ctx, name, extends, consts, cfg_lines):
    """Writes spec/<name>.tla (EXTENDS <extends>, one definition c_<K> per constant) and <name>.cfg
    (CONSTANT K <- c_K ...) into ctx.specdir. consts: dict K -> TLA+ expression text."""
    defs = "\n".join("c_%s == %s" % (k, v) for k, v in consts.items())
    with open(os.path.join(ctx.specdir, name + ".tla"), "w") as fh:
        fh.write("---- MODULE %s ----\nEXTENDS %s\n%s\n====\n" % (name, extends, defs))
    with open(os.path.join(ctx.specdir, name + ".cfg"), "w") as fh:
        fh.write("CONSTANTS\n" + "\n".join("  %s <- c_%s" % (k, k) for k in consts) + "\n" + "\n".join(cfg_lines) + "\n")
    return name


def tla_str(s):
    return '"%s"' % s


def tla_set(xs):
    return "{" + ", ".join(xs) + "}"


def tla_seq(xs):
    return "<<" + ", ".join(xs) + ">>"


def tla_mode(m):
    """'JRW' -> <<"J","R","W">>, '-' -> <<"-">>"""
    return tla_seq([tla_str(c) for c in m])
