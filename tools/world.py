"""World pipeline shared by the topic-level properties: TLC-generated behaviours -> real server (Go World) -> TLC monitors."""
import glob, json, os, re, collections
import vlib
from vlib import tla_str, tla_set, tla_seq, tla_mode

BASE = {
    "DEV_NormalizeInclusive": "FALSE", "DEV_ParseStopsAtN": "FALSE", "DEV_DeltaSingleCharNoop": "FALSE", "DEV_AdminSelfRaise": "FALSE",
}
# as-built deviations currently present in /repo (each one is a known finding or gets a fix: commit)
DEV_ALL = ["DEV_NewSubWantO", "DEV_UnsetWantTakesGiven", "DEV_BannedUpdateApplied", "DEV_OfflineSetSubBypassesCache", "DEV_ReadNoteRecvNotStored", "DEV_ChanReaderMarksNotCached"]
DEV_INTENDED = {k: "FALSE" for k in DEV_ALL}
# all three were repaired in /repo by fix: commits (bba6993, 2b35c55, 197cbbc): as-built == as-intended for them.
# The switches stay in the spec: turning one on regenerates the counterexample that the fix removed (regression behaviours).
DEV_BUILT = dict(DEV_INTENDED)
# still present in /repo (known finding C08-offline-setsub): a detached user's {set sub} bypasses the loaded topic
DEV_BUILT["DEV_OfflineSetSubBypassesCache"] = "TRUE"
# known finding C09-read-note-recv-not-stored (the repair would break pinned unit tests that fix the exact update map)
DEV_BUILT["DEV_ReadNoteRecvNotStored"] = "TRUE"
# known finding C09-channel-reader-marks (readers' marks are not kept in the live topic)
DEV_BUILT["DEV_ChanReaderMarksNotCached"] = "TRUE"


def population(nusers=3, sess_per_user=1, topics=("g1",)):
    users = ["u%d" % i for i in range(1, nusers + 1)]
    sess, k = {}, 0
    for rnd in range(sess_per_user):
        for u in users:
            k += 1
            sess["s%d" % k] = u
    return users, sess, list(topics)


def consts_for(users, sess, topics, dev, **kw):
    so = sorted(sess, key=lambda s: int(s[1:]))
    grp = [t for t in topics if t.startswith("g")]
    p2p = [t for t in topics if t.startswith("p")]
    c = dict(BASE)
    c.update(dev)
    c.update({
        "Users": tla_set(map(tla_str, users)), "UserOrder": tla_seq(map(tla_str, users)),
        "Sessions": tla_set(map(tla_str, so)), "SessOrder": tla_seq(map(tla_str, so)),
        "SessUser": "[" + ", ".join("%s |-> %s" % (s, tla_str(sess[s])) for s in so) + "]",
        "Topics": tla_set(map(tla_str, topics)), "TopicOrder": tla_seq(map(tla_str, topics)),
        "GrpTopics": tla_set(map(tla_str, grp)),
        "P2PUsers": "[t \\in %s |-> {}]" % tla_set(map(tla_str, topics)) if not p2p else
                    "[t \\in %s |-> CASE %s [] OTHER -> {}]" % (tla_set(map(tla_str, topics)),
                        " [] ".join('t = "%s" -> {"u%s", "u%s"}' % (t, t[1], t[2]) for t in p2p)),
        "MaxSubs": "3",
    })
    c.update(kw)
    return c


def mc_consts(users, sess, topics, dev, want, given, kinds, props, maxseq=0, maxdepth=0, dump="", maxsubs=3, delranges=None, maxdel=2, roots=None):
    return consts_for(users, sess, topics, dev,
                      WantModes=tla_set(tla_mode(m) for m in want), GivenModes=tla_set(tla_mode(m) for m in given),
                      Kinds=tla_set(map(tla_str, kinds)), MaxSeq=str(maxseq), MaxDepth=str(maxdepth),
                      Props=tla_set(map(tla_str, props)), DumpPrefix=tla_str(dump), MaxSubs=str(maxsubs), RandomWalk="FALSE", RootSessions=tla_set(map(tla_str, roots or [])),
                      DelRanges=tla_set(tla_seq(tla_seq([str(lo), str(hi)]) for lo, hi in rl) for rl in (delranges or [[(1, 0)]])), MaxDel=str(maxdel))


def model_check(ctx, name, consts, timeout=900, workers=None, want_trace=False):
    """Exhaustive U1 run. With want_trace the counterexample (if any) is returned as a list of action dicts."""
    vlib.write_instance(ctx, name, "TopicCore_MC", consts,
                        ["INIT Init", "NEXT Next", "INVARIANT MonitorsHold", "VIEW StView", "CHECK_DEADLOCK FALSE"])
    extra = []
    tj = os.path.join(ctx.scratch, name + "_cex.json")
    if want_trace:
        extra = ["-dumpTrace", "json", tj]
    r = ctx.tlc(name, timeout=timeout, workers=workers, extra=extra)
    mons = [" ".join(x.split())[:500] for x in re.findall(r'<< "MONITOR".*?\] >>', r.out, re.S)]
    cex = None
    if want_trace and os.path.exists(tj):
        try:
            data = json.load(open(tj))
            cex = []
            for idx, v in data["counterexample"]["state"]:
                last = v.get("last")
                if last and last.get("a") != "Init":
                    cex.append(last)
            # MonitorsHold fails in the state BEFORE the offending request: the request itself is in the MONITOR print
            if mons:
                cex.append(parse_tla_record(mons[0][mons[0].index("["):]))
        except Exception as e:
            raise vlib.Infra("cannot parse TLC counterexample json: %s" % e)
    return r, mons, cex


def parse_tla_record(txt):
    """Parses a flat TLA+ record of strings / booleans / integers / tuples of strings, as TLC prints it."""
    txt = txt.strip()
    assert txt.startswith("[")
    body = txt[1:txt.rindex("]")]
    out = {}
    for m in re.finditer(r'(\w+) \|-> (<<.*?>>|"[^"]*"|TRUE|FALSE|-?\d+)', body):
        k, v = m.group(1), m.group(2)
        if v.startswith("<<"):
            out[k] = re.findall(r'"([^"]*)"', v)
        elif v.startswith('"'):
            out[k] = v[1:-1]
        elif v in ("TRUE", "FALSE"):
            out[k] = v == "TRUE"
        else:
            out[k] = int(v)
    return out


def simulate(ctx, name, consts, num, depth, seed):
    """TLC -simulate over TopicCore_MC; returns list of behaviours (lists of action dicts)."""
    d = os.path.join(ctx.scratch, "beh_" + name)
    os.makedirs(d, exist_ok=True)
    consts = dict(consts)
    consts["DumpPrefix"] = tla_str(d + "/b")
    consts["MaxDepth"] = str(depth)
    consts["RandomWalk"] = "TRUE"
    vlib.write_instance(ctx, name, "TopicCore_MC", consts, ["INIT Init", "NEXT Next", "INVARIANT DumpHist", "CHECK_DEADLOCK FALSE"])
    r = ctx.tlc(name, workers=1, simulate="num=%d" % num, depth=depth + 1, seed=seed, timeout=600)
    if r.rc != 0 and "Error" in r.out and "Simulation" not in r.out:
        raise vlib.Infra("TLC simulation failed: " + r.out[-1500:])
    out = []
    for f in sorted(glob.glob(d + "/b*.ndjson"), key=lambda p: int(re.findall(r"b(\d+)\.ndjson", p)[0])):
        steps = vlib.read_ndjson(f)
        if steps:
            out.append(steps)
    if not out:
        raise vlib.Infra("TLC simulation produced no behaviours: " + r.out[-1500:])
    return out, r


def behaviours_json(steps_list, users, sess, topics, prefix="b", maxsubs=3, calls=False, levels=None):
    cfg = {"users": {u: (levels or {}).get(u, "auth") for u in users}, "sess": sess, "topics": topics, "maxSubs": maxsubs, "calls": calls}
    return [{"id": "%s%d" % (prefix, i + 1), "cfg": cfg, "steps": st} for i, st in enumerate(steps_list)]


def replay(ctx, behaviours, tag="t", race=False, tolerate=False):
    inp = os.path.join(ctx.scratch, "beh_%s.ndjson" % tag)
    out = os.path.join(ctx.scratch, "trace_%s.ndjson" % tag)
    vlib.write_ndjson(inp, behaviours)
    env = {"VERIF_IN": inp, "VERIF_OUT": out}
    if tolerate:
        env["VERIF_TOLERATE_INFRA"] = "1"
    o, wall = ctx.go_test_must_run("./", "TestVerifReplay$", env=env, race=race, timeout=1500)
    return out, wall


CHUNK = int(os.environ.get("VERIF_TRACE_CHUNK", "6000"))


def check_traces(ctx, trace_path, consts, props, name="TraceRun", timeout=900):
    """Runs Trace_TopicCore on the recorded trace; returns (tlc result, records, fails, divs)."""
    dst = os.path.join(ctx.specdir, "world_trace.ndjson")
    if os.path.abspath(trace_path) != dst:
        import shutil
        shutil.copy(trace_path, dst)
    c = dict(consts)
    for k in ("WantModes", "GivenModes", "Kinds", "MaxSeq", "MaxDepth", "DumpPrefix", "RandomWalk", "DelRanges", "MaxDel"):
        c.pop(k, None)
    c["Props"] = tla_set(map(tla_str, props))
    vlib.write_instance(ctx, name, "Trace_TopicCore", c, ["INIT Init", "NEXT Next", "CHECK_DEADLOCK FALSE"])
    recs = vlib.read_ndjson(dst)
    if len(recs) <= CHUNK:
        r, fails, divs = vlib.run_vector_monitor(ctx, name, "world_trace.ndjson", timeout=timeout)
        return r, recs, fails, divs
    # long traces are judged in chunks cut at behaviour boundaries (a record with i = 0 opens a behaviour): bounded memory and time
    # per TLC run; every record is still visited exactly once
    starts = [k for k, rec in enumerate(recs) if rec.get("i") == 0]
    chunks, lo = [], 0
    for st in starts[1:] + [len(recs)]:
        if st - lo >= CHUNK or st == len(recs):
            chunks.append((lo, st))
            lo = st
    fails, divs, r = [], [], None
    for lo, hi in chunks:
        if hi <= lo:
            continue
        vlib.write_ndjson(dst, recs[lo:hi])
        r1, f1, d1 = vlib.run_vector_monitor(ctx, name, "world_trace.ndjson", timeout=timeout)
        fails += [(k + lo, tags) for k, tags in f1]
        divs += [(k + lo, what) for k, what in d1]
        if r is None:
            r = r1
        else:
            r.distinct += r1.distinct
            r.generated += r1.generated
            r.wall += r1.wall
    vlib.write_ndjson(dst, recs)
    return r, recs, fails, divs


def brief_step(recs, k):
    """Human-readable replay context for trace record k (1-based): the behaviour prefix up to the failing step."""
    rec = recs[k - 1]
    start = k - 1
    while start > 0 and recs[start]["i"] != 0:
        start -= 1
    return {"behaviour": rec["b"], "step": rec["i"], "act": rec["act"], "reply_code": rec["reply"].get("code"),
            "prefix": [r["act"] for r in recs[start + 1:k]]}


def report(ctx, recs, fails, divs, prop, sig=None):
    """Feeds monitor failures (only those tagged with this property) and divergences into ctx."""
    n = 0
    for k, tags in fails:
        for tag in tags:
            p, _, mon = tag.partition(":")
            if p != prop:
                continue
            n += 1
            b = brief_step(recs, k)
            extra = sig(recs, k, mon) if sig else {}
            ctx.fail(mon, b, act=recs[k - 1]["act"].get("a", ""), **extra)
    for k, what in divs:
        b = brief_step(recs, k)
        b["diverges_in"] = what
        ctx.divergences.append(b)
    return n


def stats(recs):
    acts = collections.Counter(r["act"].get("a") for r in recs)
    codes = collections.Counter((r["act"].get("a"), r["reply"].get("code")) for r in recs)
    return {"steps": len(recs), "behaviours": sum(1 for r in recs if r["i"] == 0), "by_action": dict(acts),
            "by_action_code": {"%s:%s" % k: v for k, v in sorted(codes.items(), key=lambda kv: str(kv[0]))}}


# ---------------------------------------------------------------------- goal-directed behaviours (trap properties)
# Each goal is a state predicate over the model state `st` (and `last`, the request that led to it). TLC searches the
# as-built model breadth-first for a state satisfying it (INVARIANT ~Goal) and the counterexample IS the behaviour; a tail of
# requests that exercises the monitors' antecedents from that state is appended. This makes the rarely-true antecedents of
# the monitors (pending transfer + reload, banned + unsubscribed + resubscribe, ...) true in every run instead of by luck.
GOALS = {
    "pending_transfer": ('\\E u \\in Users : st.topics["g1"].exists /\\ st.subs["g1"][u].st = "live" /\\ u # st.topics["g1"].owner '
                         '/\\ "O" \\in M(st.subs["g1"][u].given) /\\ "O" \\notin M(st.subs["g1"][u].want) /\\ st.cache["g1"].loaded',
                         [{"a": "Reload", "t": "g1"}, {"a": "Get", "s": "s1", "t": "g1", "what": "desc sub", "since": 0, "before": 0, "limit": 0, "chan": False},
                          {"a": "SetDesc", "s": "s2", "t": "g1", "auth": ["J", "R"], "public": "x", "chan": False},
                          {"a": "DelTopic", "s": "s2", "t": "g1", "hard": True, "chan": False}]),
    "pending_transfer_accepted": ('st.topics["g1"].exists /\\ st.subs["g1"]["u2"].st = "live" /\\ st.topics["g1"].owner = "u1" /\\ st.cache["g1"].loaded '
                                  '/\\ "O" \\in M(st.subs["g1"]["u2"].given) /\\ "O" \\notin M(st.subs["g1"]["u2"].want) /\\ "g1" \\in M(st.sess["s2"].subs)',
                                  [{"a": "SetSelf", "s": "s2", "t": "g1", "mode": ["J", "R", "A", "S", "O"], "chan": False},
                                   {"a": "Get", "s": "s2", "t": "g1", "what": "desc sub", "since": 0, "before": 0, "limit": 0, "chan": False},
                                   {"a": "Reload", "t": "g1"},
                                   {"a": "Sub", "s": "s1", "t": "g1", "mode": ["J", "R", "A", "S", "O"], "chan": False, "bg": False},
                                   {"a": "SetSelf", "s": "s1", "t": "g1", "mode": ["J", "R", "A", "S", "O"], "chan": False},
                                   {"a": "Get", "s": "s2", "t": "g1", "what": "desc sub", "since": 0, "before": 0, "limit": 0, "chan": False}]),
    "pending_transfer_unloaded": ('st.topics["g1"].exists /\\ st.subs["g1"]["u2"].st = "live" /\\ st.topics["g1"].owner = "u1" '
                                  '/\\ "O" \\in M(st.subs["g1"]["u2"].given) /\\ "O" \\notin M(st.subs["g1"]["u2"].want) /\\ ~st.cache["g1"].loaded',
                                  [{"a": "DelTopic", "s": "s2", "t": "g1", "hard": True, "chan": False},
                                   {"a": "Sub", "s": "s1", "t": "g1", "mode": ["-"], "chan": False, "bg": False},
                                   {"a": "Get", "s": "s1", "t": "g1", "what": "desc sub", "since": 0, "before": 0, "limit": 0, "chan": False}]),
    # a transferee who has not accepted is NOT the owner, also after the topic was reloaded: granting ownership to a third user,
    # changing the description and deleting the topic stay refused (C06/C07: only the owner grants ownership)
    "pending_transfer_reload_grant": ('st.topics["g1"].exists /\\ st.subs["g1"]["u2"].st = "live" /\\ st.topics["g1"].owner = "u1" /\\ st.cache["g1"].loaded '
                                      '/\\ "O" \\in M(st.subs["g1"]["u2"].given) /\\ "O" \\notin M(st.subs["g1"]["u2"].want) /\\ "A" \\in Eff(st.subs["g1"]["u2"]) '
                                      '/\\ "g1" \\in M(st.sess["s2"].subs) /\\ st.subs["g1"]["u3"].st = "none"',
                                      [{"a": "Reload", "t": "g1"},
                                       {"a": "SetOther", "s": "s2", "t": "g1", "u": "u3", "mode": ["J", "R", "A", "S", "O"], "chan": False},
                                       {"a": "Get", "s": "s2", "t": "g1", "what": "desc sub", "since": 0, "before": 0, "limit": 0, "chan": False},
                                       {"a": "SetOther", "s": "s2", "t": "g1", "u": "u1", "mode": ["J", "R"], "chan": False}]),
    # two members subscribe to an UNLOADED topic at the same time: the second {sub} reaches the hub while the first one's topicInit is
    # parked inside the store read. There must still be ONE live topic: both end up attached to it, and numbering stays single
    "two_joins_while_loading": ('st.topics["g1"].exists /\\ ~st.cache["g1"].loaded /\\ st.subs["g1"]["u1"].st = "live" /\\ st.subs["g1"]["u2"].st = "live" '
                                '/\\ "W" \\in Eff(st.subs["g1"]["u1"]) /\\ {"R", "W"} \\subseteq Eff(st.subs["g1"]["u2"])',
                                [{"a": "Sub", "s": "s1", "t": "g1", "mode": ["-"], "chan": False, "bg": False,
                                  "during": {"method": "TopicGet", "do": {"a": "Sub", "s": "s2", "t": "g1", "mode": ["-"], "chan": False, "bg": False}}},
                                 {"a": "Pub", "s": "s2", "t": "g1", "c": "c1", "noecho": False, "chan": False},
                                 {"a": "Pub", "s": "s1", "t": "g1", "c": "c2", "noecho": False, "chan": False},
                                 {"a": "Pub", "s": "s2", "t": "g1", "c": "c2", "noecho": False, "chan": False},
                                 {"a": "Get", "s": "s1", "t": "g1", "what": "desc sub", "since": 0, "before": 0, "limit": 0, "chan": False}]),
    "banned_and_unsubscribed": ('st.topics["g1"].exists /\\ st.subs["g1"]["u2"].st = "del" /\\ "J" \\notin M(st.subs["g1"]["u2"].given)',
                                [{"a": "Sub", "s": "s2", "t": "g1", "mode": ["-"], "chan": False, "bg": False},
                                 {"a": "Pub", "s": "s2", "t": "g1", "c": "c1", "noecho": False, "chan": False}]),
    "banned_live": ('st.topics["g1"].exists /\\ st.subs["g1"]["u2"].st = "live" /\\ st.subs["g1"]["u2"].given = <<>> /\\ st.cache["g1"].loaded',
                    [{"a": "DelTopic", "s": "s2", "t": "g1", "hard": True, "chan": False},
                     {"a": "Sub", "s": "s2", "t": "g1", "mode": ["-"], "chan": False, "bg": False},
                     {"a": "Sub", "s": "s2", "t": "g1", "mode": ["J", "R"], "chan": False, "bg": False}]),
    "restricted_grant_unsubscribed": ('st.topics["g1"].exists /\\ st.subs["g1"]["u2"].st = "del" /\\ "J" \\in M(st.subs["g1"]["u2"].given) '
                                      '/\\ st.subs["g1"]["u2"].given # st.topics["g1"].auth',
                                      [{"a": "Sub", "s": "s2", "t": "g1", "mode": ["-"], "chan": False, "bg": False}]),
    "admin_not_owner": ('st.topics["g1"].exists /\\ st.subs["g1"]["u2"].st = "live" /\\ "A" \\in Eff(st.subs["g1"]["u2"]) /\\ "O" \\notin M(st.subs["g1"]["u2"].given) '
                        '/\\ "g1" \\in M(st.sess["s2"].subs)',
                        [{"a": "SetSelf", "s": "s2", "t": "g1", "mode": ["J", "R", "W", "P", "A", "S", "O"], "chan": False},
                         {"a": "SetSelf", "s": "s2", "t": "g1", "mode": ["J", "R", "W", "P", "A", "S", "D"], "chan": False},
                         {"a": "SetOther", "s": "s2", "t": "g1", "u": "u1", "mode": ["J", "R"], "chan": False},
                         {"a": "DelSub", "s": "s2", "t": "g1", "u": "u1", "chan": False}]),
    "admin_want_exceeds_given": ('st.topics["g1"].exists /\\ st.subs["g1"]["u2"].st = "live" /\\ st.subs["g1"]["u2"].want = <<"J", "R", "A", "S">> '
                                 '/\\ st.subs["g1"]["u2"].given = <<"J", "R", "A">> /\\ "g1" \\in M(st.sess["s2"].subs) /\\ st.cache["g1"].loaded',
                                 [{"a": "SetSelf", "s": "s2", "t": "g1", "mode": ["J", "R", "A", "S"], "chan": False},
                                  {"a": "Get", "s": "s2", "t": "g1", "what": "desc sub", "since": 0, "before": 0, "limit": 0, "chan": False},
                                  {"a": "Reload", "t": "g1"},
                                  {"a": "Get", "s": "s2", "t": "g1", "what": "desc sub", "since": 0, "before": 0, "limit": 0, "chan": False},
                                  {"a": "SetSelf", "s": "s2", "t": "g1", "mode": ["J", "R", "A", "S", "D"], "chan": False}]),
    "owner_detached": ('st.topics["g1"].exists /\\ st.cache["g1"].loaded /\\ "g1" \\notin M(st.sess["s1"].subs) /\\ st.cache["g1"].att # <<>>',
                       [{"a": "SetSelf", "s": "s1", "t": "g1", "mode": ["J", "R"], "chan": False},
                        {"a": "SetSelf", "s": "s1", "t": "g1", "mode": ["N"], "chan": False},
                        {"a": "Leave", "s": "s1", "t": "g1", "unsub": True, "chan": False},
                        {"a": "DelTopic", "s": "s2", "t": "g1", "hard": True, "chan": False}]),
    "owner_and_member_attached": ('st.topics["g1"].exists /\\ "g1" \\in M(st.sess["s1"].subs) /\\ "g1" \\in M(st.sess["s2"].subs) /\\ st.topics["g1"].owner = "u1" '
                                  '/\\ "W" \\in Eff(st.subs["g1"]["u2"])',
                                  [{"a": "DelTopic", "s": "s1", "t": "g1", "hard": True, "chan": False,
                                    "during": {"method": "TopicDelete", "do": {"a": "Pub", "s": "s2", "t": "g1", "c": "c2", "noecho": False, "chan": False}}},
                                   {"a": "Sub", "s": "s2", "t": "g1", "mode": ["-"], "chan": False, "bg": False},
                                   {"a": "Pub", "s": "s2", "t": "g1", "c": "c1", "noecho": False, "chan": False}]),
    "sharer_only": ('st.topics["g1"].exists /\\ st.subs["g1"]["u2"].st = "live" /\\ "S" \\in Eff(st.subs["g1"]["u2"]) /\\ ~IsAdmin(Eff(st.subs["g1"]["u2"])) '
                    '/\\ "g1" \\in M(st.sess["s2"].subs) /\\ st.subs["g1"]["u3"].st = "none"',
                    [{"a": "SetOther", "s": "s2", "t": "g1", "u": "u3", "mode": ["J", "R", "W", "P", "A"], "chan": False},
                     {"a": "SetOther", "s": "s2", "t": "g1", "u": "u3", "mode": ["-"], "chan": False},
                     {"a": "SetOther", "s": "s2", "t": "g1", "u": "u1", "mode": ["J", "R"], "chan": False}]),
}
# goals on the p2p topic of u1 and u2 (used when the population has one)
P2P_GOALS = {
    "p2p_one_side_unsubscribed_live": ('st.topics["p12"].exists /\\ st.subs["p12"]["u1"].st = "del" /\\ st.subs["p12"]["u2"].st = "live" /\\ st.cache["p12"].loaded '
                                       '/\\ st.cache["p12"].att # <<>> /\\ st.topics["p12"].seq > 0',
                                       [{"a": "SetOther", "s": "s2", "t": "p12", "u": "u3", "mode": ["J", "R", "W"], "chan": False},
                                        {"a": "SetOther", "s": "s2", "t": "p12", "u": "u3", "mode": ["-"], "chan": False},
                                        {"a": "Pub", "s": "s1", "t": "p12", "c": "c1", "noecho": False, "chan": False},
                                        {"a": "Note", "s": "s1", "t": "p12", "what": "recv", "seq": 1, "chan": False},
                                        {"a": "Pub", "s": "s2", "t": "p12", "c": "c2", "noecho": False, "chan": False},
                                        # notes of the user who unsubscribed (detached session: routed through the hub), inside (recv, last]
                                        {"a": "Note", "s": "s1", "t": "p12", "what": "recv", "seq": 2, "chan": False},
                                        {"a": "Note", "s": "s1", "t": "p12", "what": "recv", "seq": 3, "chan": False},
                                        {"a": "Note", "s": "s1", "t": "p12", "what": "recv", "seq": 4, "chan": False},
                                        {"a": "Note", "s": "s1", "t": "p12", "what": "read", "seq": 2, "chan": False},
                                        {"a": "Note", "s": "s1", "t": "p12", "what": "kp", "seq": 0, "chan": False},
                                        {"a": "Sub", "s": "s1", "t": "p12", "mode": ["-"], "chan": False, "bg": False},
                                        {"a": "Pub", "s": "s1", "t": "p12", "c": "c1", "noecho": False, "chan": False}]),
    "p2p_one_side_unsubscribed_unloaded": ('st.topics["p12"].exists /\\ st.subs["p12"]["u1"].st = "del" /\\ st.subs["p12"]["u2"].st = "live" /\\ ~st.cache["p12"].loaded '
                                           '/\\ st.topics["p12"].seq > 0 /\\ st.subs["p12"]["u2"].recv > 0',
                                           [{"a": "Sub", "s": "s1", "t": "p12", "mode": ["-"], "chan": False, "bg": False},
                                            {"a": "Pub", "s": "s1", "t": "p12", "c": "c1", "noecho": False, "chan": False},
                                            {"a": "Sub", "s": "s2", "t": "p12", "mode": ["-"], "chan": False, "bg": False},
                                            {"a": "Pub", "s": "s2", "t": "p12", "c": "c2", "noecho": False, "chan": False}]),
    "p2p_unsubscribed_with_marks_live": ('st.topics["p12"].exists /\\ st.subs["p12"]["u1"].st = "del" /\\ st.subs["p12"]["u1"].read > 0 /\\ st.subs["p12"]["u2"].st = "live" '
                                         '/\\ st.cache["p12"].loaded /\\ st.cache["p12"].att # <<>>',
                                         [{"a": "Sub", "s": "s1", "t": "p12", "mode": ["-"], "chan": False, "bg": False},
                                          {"a": "Get", "s": "s1", "t": "p12", "what": "desc sub", "since": 0, "before": 0, "limit": 0, "chan": False},
                                          {"a": "Note", "s": "s1", "t": "p12", "what": "read", "seq": 1, "chan": False},
                                          {"a": "Note", "s": "s1", "t": "p12", "what": "recv", "seq": 1, "chan": False},
                                          {"a": "Reload", "t": "p12"},
                                          {"a": "Get", "s": "s1", "t": "p12", "what": "desc sub", "since": 0, "before": 0, "limit": 0, "chan": False}]),
    "p2p_member_detached": ('st.topics["p12"].exists /\\ st.subs["p12"]["u1"].st = "live" /\\ st.subs["p12"]["u2"].st = "live" '
                            '/\\ "p12" \\notin M(st.sess["s1"].subs) /\\ st.cache["p12"].loaded',
                            [{"a": "SetSelf", "s": "s1", "t": "p12", "mode": ["J", "R", "W", "P"], "chan": False},
                             {"a": "SetSelf", "s": "s1", "t": "p12", "mode": ["J", "R"], "chan": False},
                             {"a": "Unload", "t": "p12"},
                             {"a": "SetSelf", "s": "s1", "t": "p12", "mode": ["J", "R", "W"], "chan": False},
                             {"a": "Sub", "s": "s1", "t": "p12", "mode": ["-"], "chan": False, "bg": False}]),
    # one participant revokes the other's write permission (the two grants now differ); the refusal must survive a reload
    # (initTopicP2P reads each participant's grant from that participant's own row)
    "p2p_peer_write_revoked": ('st.topics["p12"].exists /\\ st.topics["p12"].seq > 0 /\\ "p12" \\in M(st.sess["s1"].subs) /\\ "p12" \\in M(st.sess["s2"].subs)',
                               [{"a": "SetOther", "s": "s1", "t": "p12", "u": "u2", "mode": ["J", "R", "P", "A"], "chan": False},
                                {"a": "Pub", "s": "s2", "t": "p12", "c": "c1", "noecho": False, "chan": False},
                                {"a": "Reload", "t": "p12"},
                                {"a": "Pub", "s": "s2", "t": "p12", "c": "c2", "noecho": False, "chan": False},
                                {"a": "Pub", "s": "s1", "t": "p12", "c": "c1", "noecho": False, "chan": False},
                                {"a": "Get", "s": "s2", "t": "p12", "what": "desc sub", "since": 0, "before": 0, "limit": 0, "chan": False}]),
    # a participant unsubscribes from its attached session while the peer keeps the topic loaded: later messages must not reach it
    "p2p_leave_unsub_then_publish": ('st.topics["p12"].exists /\\ st.topics["p12"].seq > 0 /\\ "p12" \\in M(st.sess["s1"].subs) /\\ "p12" \\in M(st.sess["s2"].subs)',
                                     [{"a": "Leave", "s": "s2", "t": "p12", "unsub": True, "chan": False},
                                      {"a": "Pub", "s": "s1", "t": "p12", "c": "c1", "noecho": False, "chan": False},
                                      {"a": "Pub", "s": "s1", "t": "p12", "c": "c2", "noecho": True, "chan": False}]),
    "p2p_both_attached_with_history": ('st.topics["p12"].exists /\\ st.topics["p12"].seq > 1 /\\ Len(st.cache["p12"].att) >= 2',
                                       [{"a": "Reload", "t": "p12"},
                                        {"a": "Pub", "s": "s1", "t": "p12", "c": "c1", "noecho": True, "chan": False},
                                        {"a": "Leave", "s": "s2", "t": "p12", "unsub": True, "chan": False},
                                        {"a": "Pub", "s": "s1", "t": "p12", "c": "c2", "noecho": False, "chan": False},
                                        {"a": "Pub", "s": "s2", "t": "p12", "c": "c1", "noecho": False, "chan": False}]),
}
# goals on read/received marks (used by the properties whose request kinds include notes)
MARK_GOALS = {
    # a read mark sent above the received mark (no {note recv} before it): what {get desc} answers must be the same from the live
    # topic and after a reload (the live topic raises its cached received mark, the store keeps the old one)
    "read_without_recv": ('st.topics["g1"].exists /\\ st.cache["g1"].loaded /\\ "g1" \\in M(st.sess["s2"].subs) /\\ st.topics["g1"].seq >= 2 '
                          '/\\ st.subs["g1"]["u2"].st = "live" /\\ "R" \\in Eff(st.subs["g1"]["u2"]) /\\ st.subs["g1"]["u2"].read = 0 /\\ st.subs["g1"]["u2"].recv = 0',
                          [{"a": "Note", "s": "s2", "t": "g1", "what": "read", "seq": 2, "chan": False},
                           {"a": "Get", "s": "s2", "t": "g1", "what": "desc sub", "since": 0, "before": 0, "limit": 0, "chan": False},
                           {"a": "Reload", "t": "g1"},
                           {"a": "Get", "s": "s2", "t": "g1", "what": "desc sub", "since": 0, "before": 0, "limit": 0, "chan": False}]),
    "recv_ahead_of_read": ('st.topics["g1"].exists /\\ st.cache["g1"].loaded /\\ "g1" \\in M(st.sess["s2"].subs) '
                           '/\\ st.subs["g1"]["u2"].st = "live" /\\ st.subs["g1"]["u2"].read = 1 /\\ st.subs["g1"]["u2"].recv = 3',
                           [{"a": "Note", "s": "s2", "t": "g1", "what": "recv", "seq": 2, "chan": False},
                            {"a": "Note", "s": "s2", "t": "g1", "what": "recv", "seq": 3, "chan": False},
                            {"a": "Note", "s": "s2", "t": "g1", "what": "read", "seq": 1, "chan": False},
                            {"a": "Note", "s": "s2", "t": "g1", "what": "read", "seq": 2, "chan": False},
                            {"a": "Note", "s": "s2", "t": "g1", "what": "recv", "seq": 1, "chan": False},
                            {"a": "Reload", "t": "g1"},
                            {"a": "Note", "s": "s2", "t": "g1", "what": "recv", "seq": 2, "chan": False},
                            {"a": "Note", "s": "s2", "t": "g1", "what": "read", "seq": 3, "chan": False},
                            {"a": "Note", "s": "s2", "t": "g1", "what": "read", "seq": 4, "chan": False}]),
}
# notes relayed while the users' OTHER sessions sit on 'me' only (typing notes must not come back to the typist) - needs me topics
NOTE_GOALS = {
    # a subscriber who gave up R but kept P, with a second session on 'me' only: notes of the others must not be relayed to it
    # (infoSubsOffline requires presence AND read permission of the recipient)
    "non_reader_with_second_session_on_me": ('st.topics["g1"].exists /\\ st.topics["g1"].seq >= 1 /\\ "g1" \\in M(st.sess["s1"].subs) /\\ "g1" \\in M(st.sess["s2"].subs)',
                                             [{"a": "Sub", "s": "s4", "t": "me", "mode": ["-"], "chan": False, "bg": False},
                                              {"a": "SetSelf", "s": "s2", "t": "g1", "mode": ["J", "W", "P"], "chan": False},
                                              {"a": "Note", "s": "s1", "t": "g1", "what": "kp", "seq": 0, "chan": False},
                                              {"a": "Note", "s": "s1", "t": "g1", "what": "recv", "seq": 1, "chan": False},
                                              {"a": "Note", "s": "s1", "t": "g1", "what": "read", "seq": 1, "chan": False},
                                              {"a": "Leave", "s": "s2", "t": "g1", "unsub": False, "chan": False},
                                              {"a": "Note", "s": "s1", "t": "g1", "what": "kp", "seq": 0, "chan": False}]),
    "typists_with_second_session_on_me": ('st.topics["g1"].exists /\\ st.topics["g1"].seq >= 1 /\\ "g1" \\in M(st.sess["s1"].subs) /\\ "g1" \\in M(st.sess["s2"].subs)',
                                          [{"a": "Sub", "s": "s3", "t": "me", "mode": ["-"], "chan": False, "bg": False},
                                           {"a": "Sub", "s": "s4", "t": "me", "mode": ["-"], "chan": False, "bg": False},
                                           {"a": "Note", "s": "s1", "t": "g1", "what": "kp", "seq": 0, "chan": False},
                                           {"a": "Note", "s": "s2", "t": "g1", "what": "kp", "seq": 0, "chan": False},
                                           {"a": "Note", "s": "s2", "t": "g1", "what": "recv", "seq": 1, "chan": False},
                                           {"a": "Note", "s": "s2", "t": "g1", "what": "read", "seq": 1, "chan": False},
                                           {"a": "Sub", "s": "s1", "t": "p12", "mode": ["-"], "chan": False, "bg": False},
                                           {"a": "Sub", "s": "s2", "t": "p12", "mode": ["-"], "chan": False, "bg": False},
                                           {"a": "Pub", "s": "s1", "t": "p12", "c": "c1", "noecho": False, "chan": False},
                                           {"a": "Note", "s": "s1", "t": "p12", "what": "kp", "seq": 0, "chan": False},
                                           {"a": "Note", "s": "s2", "t": "p12", "what": "kp", "seq": 0, "chan": False},
                                           {"a": "Note", "s": "s2", "t": "p12", "what": "recv", "seq": 1, "chan": False}]),
}
# goals on unusual writer permissions (used by the properties whose request kinds include publishes)
PERM_GOALS = {
    "writer_without_read": ('st.topics["g1"].exists /\\ st.cache["g1"].loaded /\\ "g1" \\in M(st.sess["s2"].subs) /\\ "g1" \\in M(st.sess["s1"].subs) '
                            '/\\ st.subs["g1"]["u2"].st = "live" /\\ {"J", "W", "P"} \\subseteq Eff(st.subs["g1"]["u2"]) /\\ "R" \\notin Eff(st.subs["g1"]["u2"])',
                            [{"a": "Pub", "s": "s2", "t": "g1", "c": "c1", "noecho": False, "chan": False},
                             {"a": "Pub", "s": "s1", "t": "g1", "c": "c2", "noecho": False, "chan": False},
                             {"a": "Pub", "s": "s2", "t": "g1", "c": "c1", "noecho": True, "chan": False}]),
    "writer_without_presence": ('st.topics["g1"].exists /\\ st.cache["g1"].loaded /\\ "g1" \\in M(st.sess["s2"].subs) /\\ "g1" \\in M(st.sess["s1"].subs) '
                                '/\\ st.subs["g1"]["u2"].st = "live" /\\ {"J", "R", "W"} \\subseteq Eff(st.subs["g1"]["u2"]) /\\ "P" \\notin Eff(st.subs["g1"]["u2"])',
                                [{"a": "Pub", "s": "s2", "t": "g1", "c": "c1", "noecho": False, "chan": False},
                                 {"a": "Pub", "s": "s1", "t": "g1", "c": "c2", "noecho": False, "chan": False},
                                 {"a": "Leave", "s": "s2", "t": "g1", "unsub": False, "chan": False},
                                 {"a": "Pub", "s": "s1", "t": "g1", "c": "c1", "noecho": False, "chan": False}]),
}
# goals followed by an account suspension (the tail's "ROOT" is replaced by the population's root session); C03
def _pub(s, t, c="c1"):
    return {"a": "Pub", "s": s, "t": t, "c": c, "noecho": False, "chan": False}
SUSP_GOALS = {
    "suspend_owner_of_loaded_group": ('st.topics["g1"].exists /\\ "g1" \\in M(st.sess["s1"].subs) /\\ "g1" \\in M(st.sess["s2"].subs) /\\ st.topics["g1"].owner = "u1" '
                                      '/\\ "W" \\in Eff(st.subs["g1"]["u2"])',
                                      [_pub("s2", "g1"), {"a": "Suspend", "s": "ROOT", "u": "u1", "on": True}, _pub("s2", "g1", "c2"),
                                       {"a": "Reload", "t": "g1"}, _pub("s2", "g1", "c2"),
                                       {"a": "Suspend", "s": "ROOT", "u": "u1", "on": False}, _pub("s2", "g1"),
                                       {"a": "Suspend", "s": "ROOT", "u": "u2", "on": True}, {"a": "Suspend", "s": "ROOT", "u": "u2", "on": False}]),
    "suspend_p2p_participant": ('st.topics["p12"].exists /\\ Len(st.cache["p12"].att) >= 2 /\\ "p12" \\in M(st.sess["s1"].subs) /\\ "p12" \\in M(st.sess["s2"].subs)',
                                [_pub("s2", "p12"), {"a": "Suspend", "s": "ROOT", "u": "u1", "on": True}, _pub("s2", "p12", "c2"),
                                 {"a": "Reload", "t": "p12"}, _pub("s2", "p12", "c2"),
                                 {"a": "Suspend", "s": "ROOT", "u": "u1", "on": False}, _pub("s2", "p12")]),
    "suspend_while_others_loaded": ('st.topics["g1"].exists /\\ st.topics["p12"].exists /\\ st.cache["g1"].loaded /\\ st.cache["p12"].loaded '
                                    '/\\ "g1" \\in M(st.sess["s2"].subs) /\\ "p12" \\in M(st.sess["s2"].subs) /\\ st.topics["g1"].owner = "u1" /\\ "W" \\in Eff(st.subs["g1"]["u2"])',
                                    [{"a": "Sub", "s": "s2", "t": "me", "mode": ["-"], "chan": False, "bg": False},
                                     {"a": "Sub", "s": "s2", "t": "fnd", "mode": ["-"], "chan": False, "bg": False},
                                     {"a": "Sub", "s": "s3", "t": "me", "mode": ["-"], "chan": False, "bg": False},
                                     {"a": "Sub", "s": "s3", "t": "fnd", "mode": ["-"], "chan": False, "bg": False},
                                     {"a": "Suspend", "s": "ROOT", "u": "u1", "on": True}, _pub("s2", "g1", "c2"), _pub("s2", "p12", "c2"),
                                     {"a": "Suspend", "s": "ROOT", "u": "u1", "on": False}, _pub("s2", "g1"), _pub("s2", "p12")]),
}
# a channel-enabled group with a full member and a channel reader attached (C02: names per recipient, channel push)
CHAN_GOALS = {
    "channel_member_and_reader_attached": ('st.topics["g1"].exists /\\ st.topics["g1"].ischan /\\ "g1" \\in M(st.sess["s1"].subs) /\\ "g1" \\in M(st.sess["s2"].subs) '
                                           '/\\ st.subs["g1"]["u2"].st = "live" /\\ (\\E x \\in AttOf(st.cache["g1"]) : x.s = "s3" /\\ x.chan)',
                                           [{"a": "Pub", "s": "s2", "t": "g1", "c": "c1", "noecho": False, "chan": True},
                                            {"a": "Pub", "s": "s1", "t": "g1", "c": "c2", "noecho": False, "chan": False},
                                            {"a": "SetSelf", "s": "s1", "t": "g1", "mode": ["J", "R", "W", "A", "S", "D", "O"], "chan": False},
                                            {"a": "SetSelf", "s": "s2", "t": "g1", "mode": ["J", "R", "W"], "chan": False},
                                            {"a": "Pub", "s": "s1", "t": "g1", "c": "c1", "noecho": False, "chan": False},
                                            {"a": "Pub", "s": "s3", "t": "g1", "c": "c2", "noecho": False, "chan": True},
                                            {"a": "Pub", "s": "s1", "t": "g1", "c": "c2", "noecho": True, "chan": True}]),
    # a channel reader unsubscribes from its attached session while the topic stays loaded: later messages must not reach it
    "channel_reader_unsubscribes": ('st.topics["g1"].exists /\\ st.topics["g1"].ischan /\\ "g1" \\in M(st.sess["s1"].subs) '
                                    '/\\ (\\E x \\in AttOf(st.cache["g1"]) : x.s = "s3" /\\ x.chan)',
                                    [{"a": "Leave", "s": "s3", "t": "g1", "unsub": True, "chan": True},
                                     {"a": "Pub", "s": "s1", "t": "g1", "c": "c1", "noecho": False, "chan": False},
                                     {"a": "Pub", "s": "s1", "t": "g1", "c": "c2", "noecho": True, "chan": False}]),
}
# a reader without delete permission asks for a HARD delete (silently degrades to soft: nobody else's view changes)   C04
HIST_GOALS = {
    "hard_delete_by_non_deleter": ('st.topics["g1"].exists /\\ st.topics["g1"].seq >= 2 /\\ st.subs["g1"]["u2"].st = "live" /\\ "R" \\in Eff(st.subs["g1"]["u2"]) '
                                   '/\\ "D" \\notin Eff(st.subs["g1"]["u2"]) /\\ "g1" \\in M(st.sess["s2"].subs) /\\ "g1" \\in M(st.sess["s1"].subs)',
                                   [{"a": "DelMsg", "s": "s2", "t": "g1", "ranges": [[1, 0]], "hard": True, "chan": False},
                                    {"a": "Get", "s": "s1", "t": "g1", "what": "data", "since": 0, "before": 0, "limit": 0, "chan": False},
                                    {"a": "Get", "s": "s1", "t": "g1", "what": "del", "since": 0, "before": 0, "limit": 0, "chan": False},
                                    {"a": "Get", "s": "s2", "t": "g1", "what": "data", "since": 0, "before": 0, "limit": 0, "chan": False},
                                    {"a": "Get", "s": "s2", "t": "g1", "what": "del", "since": 0, "before": 0, "limit": 0, "chan": False},
                                    {"a": "DelMsg", "s": "s1", "t": "g1", "ranges": [[2, 0]], "hard": True, "chan": False},
                                    {"a": "Get", "s": "s2", "t": "g1", "what": "data", "since": 0, "before": 0, "limit": 0, "chan": False}]),
}
# a root session attached on behalf of a reader receives what that reader would (C02)
OBO_PUB_GOALS = {
    "obo_reader_attached": ('st.topics["g1"].exists /\\ "g1" \\in M(st.sess["s1"].subs) /\\ st.subs["g1"]["u2"].st = "live" /\\ "R" \\in Eff(st.subs["g1"]["u2"])',
                            [{"a": "Sub", "s": "ROOT", "t": "g1", "mode": ["-"], "chan": False, "bg": False, "obo": "u2"},
                             {"a": "Pub", "s": "s1", "t": "g1", "c": "c1", "noecho": False, "chan": False},
                             {"a": "Pub", "s": "ROOT", "t": "g1", "c": "c2", "noecho": False, "chan": False, "obo": "u2"},
                             {"a": "Leave", "s": "ROOT", "t": "g1", "unsub": False, "chan": False, "obo": "u2"},
                             {"a": "Pub", "s": "s1", "t": "g1", "c": "c1", "noecho": False, "chan": False}]),
}
# history and deletions requested by root on behalf of a user whose own soft deletions exist (C04); "ROOT" = the root session
OBO_GOALS = {
    "obo_history_after_soft_deletes": ('st.topics["g1"].exists /\\ st.topics["g1"].seq >= 3 /\\ st.subs["g1"]["u2"].st = "live" /\\ "R" \\in Eff(st.subs["g1"]["u2"]) '
                                       '/\\ (\\E i \\in DOMAIN st.dlog["g1"] : st.dlog["g1"][i]["for"] = "u2")',
                                       [{"a": "Sub", "s": "ROOT", "t": "g1", "mode": ["-"], "chan": False, "bg": False, "obo": "u2"},
                                        {"a": "Get", "s": "ROOT", "t": "g1", "what": "data", "since": 0, "before": 0, "limit": 0, "chan": False, "obo": "u2"},
                                        {"a": "Get", "s": "ROOT", "t": "g1", "what": "del", "since": 0, "before": 0, "limit": 0, "chan": False, "obo": "u2"},
                                        {"a": "Sub", "s": "ROOT", "t": "g1", "mode": ["-"], "chan": False, "bg": False},
                                        {"a": "DelMsg", "s": "ROOT", "t": "g1", "ranges": [[3, 0]], "hard": False, "chan": False, "obo": "u2"},
                                        {"a": "Get", "s": "ROOT", "t": "g1", "what": "data", "since": 0, "before": 0, "limit": 0, "chan": False, "obo": "u2"},
                                        {"a": "Get", "s": "ROOT", "t": "g1", "what": "data", "since": 0, "before": 0, "limit": 0, "chan": False, "obo": "u1"},
                                        {"a": "Get", "s": "ROOT", "t": "g1", "what": "del", "since": 0, "before": 0, "limit": 0, "chan": False, "obo": "u2"}]),
}


def goal_behaviours(ctx, users, sess, topics, names=None, maxsubs=3, marks=False, perms=False, suspend_root=None, obo_root=None, hist=False, obo_pub_root=None, chan=False, me_notes=False):
    import concurrent.futures
    goals = dict(GOALS)
    p2p = "p12" in topics
    if p2p:
        goals.update(P2P_GOALS)
    if marks:
        goals.update(MARK_GOALS)
    if perms:
        goals.update(PERM_GOALS)
    if obo_root:
        for k, (e, tail) in OBO_GOALS.items():
            goals[k] = (e, json.loads(json.dumps(tail).replace('"ROOT"', json.dumps(obo_root))))
    if hist:
        goals.update(HIST_GOALS)
    if chan:
        goals.update(CHAN_GOALS)
    if me_notes:
        goals.update(NOTE_GOALS)
    if obo_pub_root:
        for k, (e, tail) in OBO_PUB_GOALS.items():
            goals[k] = (e, json.loads(json.dumps(tail).replace('"ROOT"', json.dumps(obo_pub_root))))
    if suspend_root:
        for k, (e, tail) in SUSP_GOALS.items():
            if "p12" in e and not p2p:
                continue
            goals[k] = (e, json.loads(json.dumps(tail).replace('"ROOT"', json.dumps(suspend_root))))
    names = names or list(goals)
    # a goal that speaks of users or sessions outside this population does not apply to it
    import re as _re
    def _known(txt):
        return all(x in users for x in _re.findall(r'"(u\d+)"', txt)) and all(x in sess or x in (suspend_root, obo_root, obo_pub_root) for x in _re.findall(r'"(s\d+)"', txt))
    # tail steps that name users / sessions outside this population are dropped; a goal whose predicate does is skipped
    for nm in list(goals):
        goals[nm] = (goals[nm][0], [st for st in goals[nm][1] if _known(json.dumps(st))])
    def _applies(nm):
        txt = goals[nm][0]
        return all(x in users for x in _re.findall(r'"(u\d+)"', txt)) and all(x in sess or x in (suspend_root, obo_root, obo_pub_root) for x in _re.findall(r'"(s\d+)"', txt))
    names = [nm for nm in names if _applies(nm)]
    consts = mc_consts(users, sess, topics, DEV_BUILT, ["-", "N", "JR", "JRS", "JRA", "JRAS", "JRASO"], ["-", "N", "JR", "JRS", "JRA", "JRAS", "JRASO"],
                       ["NewGrp", "Sub", "Leave", "SetSelf", "SetOther", "DelSub", "DelTopic", "Unload"], [], maxsubs=maxsubs)
    consts_p2p = mc_consts(users, sess, topics, DEV_BUILT, ["-"], ["-"], ["P2P"], [], maxseq=3, maxsubs=maxsubs)
    consts_susp = mc_consts(users, sess, topics, DEV_BUILT, ["-", "JRW"], ["-", "JRW"], ["NewGrp", "Sub", "P2P"], [], maxseq=1, maxsubs=maxsubs)
    consts_obo = mc_consts(users, sess, topics, DEV_BUILT, ["-", "JRW"], ["-", "JRW"], ["NewGrp", "Sub", "Pub", "DelMsg"], [], maxseq=3, maxsubs=maxsubs,
                           delranges=[[(1, 0)], [(2, 0)]], maxdel=2)
    # (a channel's default access has no J: a full member needs the owner's invitation)
    consts_chan = mc_consts(users, sess, topics, DEV_BUILT, ["-"], ["-", "JRWP"], ["NewGrp", "Sub", "SetOther", "Chan"], [], maxsubs=maxsubs)
    consts_perms = mc_consts(users, sess, topics, DEV_BUILT, ["-", "JWP", "JRW"], ["-", "JRWP"], ["NewGrp", "Sub", "SetSelf"], [], maxsubs=maxsubs)
    consts_marks = mc_consts(users, sess, topics, DEV_BUILT, ["-", "JRW"], ["-", "JRW"], ["NewGrp", "Sub", "Pub", "Note"], [], maxseq=3, maxsubs=maxsubs)

    def one(name):
        expr, tail = goals[name]
        mod = "Goal_" + name
        cs = consts_marks if name in NOTE_GOALS else consts_chan if name in CHAN_GOALS else consts_obo if name in OBO_GOALS or name in HIST_GOALS else consts_susp if name in OBO_PUB_GOALS else consts_susp if name in SUSP_GOALS else consts_p2p if name in P2P_GOALS else consts_marks if name in MARK_GOALS else consts_perms if name in PERM_GOALS else consts
        defs = "\n".join("c_%s == %s" % (k, v) for k, v in cs.items())
        with open(os.path.join(ctx.specdir, mod + ".tla"), "w") as fh:
            fh.write("---- MODULE %s ----\nEXTENDS TopicCore_MC\n%s\nNotGoal == ~(%s)\n====\n" % (mod, defs, expr))
        with open(os.path.join(ctx.specdir, mod + ".cfg"), "w") as fh:
            fh.write("CONSTANTS\n" + "\n".join("  %s <- c_%s" % (k, k) for k in cs) +
                     "\nINIT Init\nNEXT Next\nINVARIANT NotGoal\nVIEW StView\nCHECK_DEADLOCK FALSE\n")
        tj = os.path.join(ctx.scratch, mod + "_cex.json")
        for attempt in (1, 2, 3):
            r = ctx.tlc(mod, workers=1, timeout=600, extra=["-dumpTrace", "json", tj])   # one worker: the same (first shortest) witness every run
            if os.path.exists(tj):
                break
            if "No error has been found" in r.out:
                # the goal state is not reachable under this property's population / constants: nothing to replay
                vlib.log("goal %s: not reachable in this population" % name)
                return name, None
            # TLC did not finish (load, timeout): a silently missing goal would make the check's power depend on the weather
            if attempt == 3:
                raise vlib.Infra("goal model %s did not produce its witness (TLC rc=%s): %s" % (name, r.rc, r.out[-300:]))
        data = json.load(open(tj))
        steps = [v["last"] for idx, v in data["counterexample"]["state"] if v.get("last") and v["last"].get("a") != "Init"]
        return name, steps + tail

    out = {}
    with concurrent.futures.ThreadPoolExecutor(max_workers=8) as ex:
        for name, beh in ex.map(one, names):
            if beh:
                out[name] = beh
    return out
